package main

import (
	"fmt"
	"go/constant"
	"go/token"
	"go/types"
	"regexp"
	"sort"
	"strings"

	"golang.org/x/tools/go/ssa"
)

func init() {
	register(&PropertyDef{
		ID: "C11",
		Explanation: "Decided (structural part of 'an SSTable reads back exactly what was written'): " +
			"(1) footer agreement — Footer.Encode and footer.Decode place every struct field at the same offset, width and byte order; the checksum covers the same prefix on both sides; FooterSize tiles; " +
			"(2) index entry agreement — the (offset w8, size w4) sequence BuildIndex writes equals what ParseBlockLocator and the iterators read; " +
			"(3) block entry agreement — along the restart/delta × value/tombstone paths the writer's sequence of fixed-width fields equals the reader's sequence of reads and cursor advances; the trailer (restart array, count w4, xxhash64 w8) agrees with block.NewReader; the tombstone marker is shared; " +
			"(4) checksums — every success exit of block.NewReader and footer.Decode is dominated by the checksum (and magic) comparison; FetchBlock goes through block.NewReader; " +
			"(5) bloom filters — a block's filter is keyed by that block's own offset (the next filter is created after dataOffset advanced; the index entry records the offset before), a key is added to the filter before the block can be flushed, the reader matches filters by the index entry's offset, Add and Contains use the same hash sequence and setBit/testBit the same bit addressing, the filter file header agrees between SaveToFile and LoadBloomFilter; " +
			"(6) input must be strictly ascending; the index entry's first key is the block's first entry and is recorded only after the block was written completely; (7) no arithmetic on 8/16-bit operands in the codecs (lengths are widened before adding); " +
			"(8) an empty value is not a tombstone; the sstable iterator does not re-lock its own mutex; " +
			"(9) block.NewReader keeps the slice it is given, so every caller hands over freshly allocated bytes; the decoder's sanity limits on key lengths are not below the 16-bit format maximum; " +
			"(10) seek landing, structural part: the restart search of block.Iterator.Seek is classified by the update table of one iteration (lower-bound / floor) and a lower-bound search must examine the interval before the restart point it found; the index stores each block's FIRST key, so the index seek must step back to the last entry <= target — BOTH VIOLATED on this tree (recorded findings, demo in findings_demos/). " +
			"Added after blind round 5: the temporary file of a table is named after the table's own file name. " +
			"Added after blind round 6: the block checksum is computed last and covers everything but itself on both sides (the restart count steers decoding); every *block.Iterator stored anywhere in pkg/sstable is made on the spot by block.Reader.Iterator(), which returns a fresh allocation (table iterators never share a cursor). " +
			"Added after blind round 6: the cursor protocol of the block entry decoders: decodeCurrent, like decodeNext, consumes the writer's field sequence and leaves the cursor behind the entry (tree defect, repaired: 8de228a — the entry an iterator was positioned on was delivered twice). " +
			"Added after blind round 7: the block builder stores copies of key and value; the delta-base rule of C01. " +
			"Added after blind round 8: the fetcher and index-cursor rules of C01/C05. " +
			"Added after blind round 8: ParseBlockLocator, like FetchBlock, has no failing exit decided by a constant cap on the block size; every successful exit of sstable.Iterator.Seek lies behind indexIterator.Seek(target). " +
			"Added after blind round 9: re-stated after the repair 9ebed55: Seek may delegate the restart search to a floor primitive — the search is classified there (floor, midpoint rounded up), and Seek reports success on the floor entry only behind an equality test with the target, never returning the floor's answer as its own; Reader.FindBlockForKey positions the index like sstable.Iterator.Seek (last entry <= key). " +
			"Added after blind round 9: the key handed to the index block is the entry's FirstKey as stored (a shortened routing key breaks the reader's floor search); the loop that loads the per-block filters ends only with the filter section, never on a count (Reader.Get skips a block it has no filter for). " +
			"Added after blind round 10: no function of the table reader branches on a comparison of a block locator's size with a constant. " +
			"Added after blind round 10: Writer.Finish writes every collected block filter (Reader.Get skips a block it has no filter for). " +
			"Added after blind round 11: every 'found' exit of Reader.SearchBlockForKey lies behind an equality test of the iterator's key with the key sought; the load-what-it-indexed and marks-itself-positioned obligations of the table iterator.",
		NotDecided: "DECLARED UNDECIDED: the exact landing position of Seek beyond the two structural conditions of (10) (e.g. what Seek answers at the end of a block), and 'every entry exactly once' beyond the cursor protocol of the two entry decoders (both must leave the cursor behind the entry they decode — decided since session 4; the tree's decodeCurrent did not, repaired by 8de228a). Also not decided: point-lookup completeness for all data sets, behaviour under arbitrary corruption.",
		Rules:      []func(*Ctx, *Reporter){ruleFooterCodec, ruleIndexEntryCodec, ruleBlockEntryTrace, ruleBlockTrailer, ruleSstChecksums, ruleBloomKey, ruleBloomSiblings, ruleBuilderStrictOrder, ruleIndexFirstKey, ruleNoNarrowArithmetic, ruleEmptyNotDeleted, ruleTombstoneMarker, ruleSstReentrancy, ruleRetainedBuffersAreFresh, ruleReaderLimitsCoverFormat, ruleBlockSeekInterval, ruleIndexSeekAgreement, ruleTempFilePerTable, ruleBlockChecksumCoverage, ruleIteratorsOwnCursors, ruleBuilderCopiesValues, ruleDeltaBaseIsPredecessor, ruleNoCapOnBlockSize, ruleTableIteratorRewindsIndex, ruleTableSeekAlwaysAsksIndex, ruleIndexKeyVerbatim, ruleEveryFilterLoaded, ruleNoCapOnLocatorSize, ruleWriterWritesEveryFilter, ruleBlockLookupComparesTheKey, ruleTableIteratorLoadsWhatItIndexed, ruleTableIteratorMarksItselfPositioned},
	})
}

func ruleSstReentrancy(c *Ctx, r *Reporter) {
	r.Rule("no-reentrancy", 5)
	checkNoReentrancy(c, r, func(fn *ssa.Function) bool { return strings.HasPrefix(pkgOf(fn), "pkg/sstable") })
}

// constLenBuffer finds the slice created by make([]byte, <const N>) in fn.
func constLenBuffer(fn *ssa.Function, n int64) ssa.Value {
	var buf ssa.Value
	AllInstrs(fn, false, func(_ *ssa.Function, ins ssa.Instruction) {
		if sl, ok := ins.(*ssa.Slice); ok {
			if al, ok := sl.X.(*ssa.Alloc); ok && al.Comment == "makeslice" {
				if at, ok := al.Type().Underlying().(*types.Pointer).Elem().Underlying().(*types.Array); ok && at.Len() == n {
					buf = sl
				}
			}
		}
		if mk, ok := ins.(*ssa.MakeSlice); ok {
			if k, isK := constInt(mk.Len); isK && k == n {
				buf = mk
			}
		}
	})
	return buf
}

// storedField: the struct field a decoded value is stored into (through conversions).
func storedField(v ssa.Value, d int) string {
	if d > 3 || v.Referrers() == nil {
		return ""
	}
	for _, ref := range *v.Referrers() {
		switch x := ref.(type) {
		case *ssa.Store:
			if x.Val == v {
				if fv := fieldVarOf(x.Addr); fv != nil {
					return fv.Name()
				}
			}
		case *ssa.Convert:
			if s := storedField(x, d+1); s != "" {
				return s
			}
		}
	}
	return ""
}

func ruleFooterCodec(c *Ctx, r *Reporter) {
	r.Rule("footer-agreement", 11)
	enc := c.Func("pkg/sstable/footer", "Footer", "Encode")
	dec := c.Func("pkg/sstable/footer", "", "Decode")
	fs := c.Const("pkg/sstable/footer", "FooterSize")
	if enc == nil || dec == nil || fs == nil {
		r.Unresolved("footer.Footer.Encode / footer.Decode / footer.FooterSize", "not found")
		return
	}
	fsV, _ := constant.Int64Val(fs.Val())
	eb := constLenBuffer(enc, fsV)
	if eb == nil {
		r.Bad("footer:buffer", c.FnPos(enc), "Encode does not fill a buffer of FooterSize bytes")
		return
	}
	ef := ExtractOffsetEncoder(enc, func(v ssa.Value) bool { return v == eb }, noGuards)
	legacy := func(cond ssa.Value, lx *LinX) string {
		bo, ok := cond.(*ssa.BinOp)
		if !ok {
			return ""
		}
		if k, isK := constInt(bo.Y); isK && k == 2 && (bo.Op == token.GEQ || bo.Op == token.LSS) {
			return "version " + bo.Op.String() + " 2"
		}
		return ""
	}
	df := ExtractOffsetDecoder(dec, isParamNamed(dec, "data"), legacy)
	// encoder: offset -> (width, field written)
	type slot struct {
		width, order, field string
		pos                 string
	}
	encMap := map[string]slot{}
	total := int64(0)
	for _, f := range ef {
		name := f.Val
		if i := strings.LastIndex(name, "."); i >= 0 {
			name = name[i+1:]
		}
		encMap[f.Off] = slot{f.Width, f.Order, name, c.InsPos(f.Ins)}
		var w int64
		fmt.Sscanf(f.Width, "%d", &w)
		total += w
	}
	n := 0
	for _, f := range df {
		if strings.Contains(f.Guard, "version < 2") {
			continue // legacy (version 1) layout: not produced by this writer
		}
		field := storedField(f.val, 0)
		if field == "" {
			continue
		}
		n++
		e, has := encMap[f.Off]
		name := "footer." + field
		switch {
		case !has:
			r.Bad(name, c.InsPos(f.Ins), fmt.Sprintf("the reader takes %s from offset %s, where the writer puts nothing", field, f.Off))
		case e.field != field && !(field == "Checksum" && strings.Contains(e.field, "Sum64")):
			r.Bad(name, c.InsPos(f.Ins), fmt.Sprintf("the reader takes %s from offset %s, where the writer (%s) puts %s", field, f.Off, e.pos, e.field))
		case e.width != f.Width || e.order != f.Order:
			r.Bad(name, c.InsPos(f.Ins), fmt.Sprintf("%s: writer w%s %s, reader w%s %s at offset %s", field, e.width, e.order, f.Width, f.Order, f.Off))
		default:
			r.OK(name, c.InsPos(f.Ins), fmt.Sprintf("@%s w%s %s on both sides", f.Off, f.Width, f.Order))
		}
	}
	if n < 10 {
		r.Bad("footer:coverage", c.FnPos(dec), fmt.Sprintf("only %d footer fields are decoded into the struct (11 are written)", n))
	}
	// checksum coverage: xxhash.Sum64(buf[:K]) with the same K on both sides (version >= 2 arm)
	sumBound := func(fn *ssa.Function, wantGuard string) (int64, bool) {
		var k int64 = -1
		AllInstrs(fn, false, func(_ *ssa.Function, ins ssa.Instruction) {
			call, ok := ins.(*ssa.Call)
			if !ok || !strings.HasSuffix(staticName(call), "xxhash/v2.Sum64") {
				return
			}
			sl, ok := call.Call.Args[0].(*ssa.Slice)
			if !ok || sl.High == nil {
				return
			}
			hi, isK := constInt(sl.High)
			if !isK {
				return
			}
			g := dominatingGuards(ins.Block(), func(cv ssa.Value) string { return legacy(cv, &LinX{}) })
			if strings.Contains(g, "version < 2") {
				return
			}
			k = hi
		})
		return k, k >= 0
	}
	ke, ok1 := sumBound(enc, "")
	kd, ok2 := sumBound(dec, "")
	r.Check(ok1 && ok2 && ke == kd && ke+8 == fsV, "footer.checksum-coverage", c.FnPos(dec), fmt.Sprintf("both sides hash the first %d bytes; checksum occupies the last 8 of %d", ke, fsV), fmt.Sprintf("checksum covers %d bytes on the writer side and %d on the reader side (FooterSize %d)", ke, kd, fsV))
}

func ruleIndexEntryCodec(c *Ctx, r *Reporter) {
	r.Rule("index-entry-agreement", 3)
	build := c.Func("pkg/sstable", "IndexBuilder", "BuildIndex")
	parse := c.Func("pkg/sstable", "", "ParseBlockLocator")
	if build == nil || parse == nil {
		r.Unresolved("sstable.IndexBuilder.BuildIndex / sstable.ParseBlockLocator", "not found")
		return
	}
	// writer: sequence of binary.Write value types in program order
	type w struct {
		width int64
		field string
		order string
	}
	var ws []w
	AllInstrs(build, false, func(_ *ssa.Function, ins ssa.Instruction) {
		call, ok := ins.(*ssa.Call)
		if !ok || staticName(call) != "encoding/binary.Write" {
			return
		}
		mi, ok := call.Call.Args[2].(*ssa.MakeInterface)
		if !ok {
			return
		}
		order := "?"
		if g := globalLoad(stripAll(call.Call.Args[1])); g != nil {
			order = map[string]string{"LittleEndian": "LE", "BigEndian": "BE"}[g.Name()]
		}
		name := Path(mi.X)
		if i := strings.LastIndex(name, "."); i >= 0 {
			name = name[i+1:]
		}
		ws = append(ws, w{sizeofBasic(mi.X.Type()), name, order})
	})
	df := ExtractOffsetDecoder(parse, isParamNamed(parse, "value"), noGuards)
	ok := len(ws) == 2 && len(df) == 2
	var diffs []string
	if ok {
		off := int64(0)
		for i := range ws {
			d := df[i]
			if d.Off != fmt.Sprint(off) || d.Width != fmt.Sprint(ws[i].width) || d.Order != ws[i].order {
				ok = false
				diffs = append(diffs, fmt.Sprintf("field %d (%s): writer @%d w%d %s, reader @%s w%s %s", i, ws[i].field, off, ws[i].width, ws[i].order, d.Off, d.Width, d.Order))
			}
			off += ws[i].width
		}
		// reader stores offset into Offset, size into Size
		if storedOrReturnedField(df[0].val) != "Offset" && ws[0].field == "BlockOffset" {
			// returned in a composite literal: look at stores into the result struct
		}
	} else {
		diffs = append(diffs, fmt.Sprintf("writer emits %d fields, reader reads %d", len(ws), len(df)))
	}
	r.Check(ok, "sstable.index-entry", c.FnPos(parse), "offset w8 then size w4, little endian, on both sides", "index entry layout differs: "+strings.Join(diffs, "; "))
	// other readers of the index value: Value()[:8] as LE uint64
	n := 0
	bad := 0
	for _, fn := range c.KevoFns {
		if pkgOf(fn) != "pkg/sstable" || fn == parse {
			continue
		}
		AllInstrs(fn, false, func(_ *ssa.Function, ins ssa.Instruction) {
			call, isCall := ins.(*ssa.Call)
			if !isCall {
				return
			}
			order, op, width := binaryOrderCall(call)
			if op != "get" {
				return
			}
			sl, isSl := call.Call.Args[1].(*ssa.Slice)
			if !isSl {
				return
			}
			src, isC := sl.X.(*ssa.Call)
			if !isC || calleeName(src.Common()) != "Value" {
				return
			}
			n++
			hi, _ := constInt(sl.High)
			if sl.Low != nil || hi != 8 || width != 8 || order != "LE" {
				bad++
				r.Bad(FnName(fn)+":index-offset-read", c.InsPos(ins), "reads the block offset from the index value with a layout other than [0:8] little-endian uint64")
			}
		})
	}
	if bad == 0 {
		r.OK("sstable.Iterator:index-offset-reads", "-", fmt.Sprintf("%d direct reads of the block offset, all [0:8] LE uint64", n))
	}
	r.Check(len(ws) == 2 && ws[0].field == "BlockOffset" && ws[1].field == "BlockSize", "sstable.IndexBuilder.BuildIndex:fields", c.FnPos(build), "writes BlockOffset then BlockSize", "BuildIndex does not write BlockOffset then BlockSize")
}

func storedOrReturnedField(v ssa.Value) string { return storedField(v, 0) }

func sizeofBasic(t types.Type) int64 {
	if b, ok := t.Underlying().(*types.Basic); ok {
		switch b.Kind() {
		case types.Uint8, types.Int8, types.Bool:
			return 1
		case types.Uint16, types.Int16:
			return 2
		case types.Uint32, types.Int32, types.Float32:
			return 4
		case types.Uint64, types.Int64, types.Float64:
			return 8
		}
	}
	return -1
}

func ruleBlockEntryTrace(c *Ctx, r *Reporter) {
	r.Rule("block-entry-agreement", 12)
	finish := c.Func("pkg/sstable/block", "Builder", "Finish")
	nextFn := c.Func("pkg/sstable/block", "Iterator", "decodeNext")
	curFn := c.Func("pkg/sstable/block", "Iterator", "decodeCurrent")
	if finish == nil || nextFn == nil || curFn == nil {
		r.Unresolved("block.Builder.Finish / block.Iterator.decodeNext / decodeCurrent", "not found")
		return
	}
	// the entry loop of Finish: the range loop that calls binary.Write
	var loop *GenericLoop
	for _, l := range GenericLoops(finish) {
		nW := 0
		isRange := false
		for _, ins := range l.Header.Instrs {
			if ph, ok := ins.(*ssa.Phi); ok && ph.Comment == "rangeindex" {
				isRange = true
			}
		}
		for _, b := range finish.Blocks {
			if l.Contains(b) {
				for _, ins := range b.Instrs {
					if call, ok := ins.(*ssa.Call); ok && staticName(call) == "encoding/binary.Write" {
						nW++
					}
				}
			}
		}
		if isRange && nW >= 4 {
			loop = l
		}
	}
	if loop == nil {
		r.Undecided("block.Builder.Finish:entry-loop", c.FnPos(finish), "entry loop not found")
		return
	}
	restartK := int64(16)
	if k := c.Const("pkg/sstable/block", "RestartInterval"); k != nil {
		restartK, _ = constant.Int64Val(k.Val())
	}
	// value path of the current entry
	valPath := ""
	ev0 := &evaluator{sc: &Scenario{}, phi: map[*ssa.Phi]ssa.Value{}}
	AllInstrs(finish, false, func(_ *ssa.Function, ins ssa.Instruction) {
		if bo, ok := ins.(*ssa.BinOp); ok && loop.Contains(ins.Block()) && isNilConst(bo.Y) {
			p := ev0.pathOf(bo.X)
			if strings.HasSuffix(p, ".Value") {
				valPath = p
			}
		}
	})
	restartPhi := ""
	for _, ins := range loop.Header.Instrs {
		if ph, ok := ins.(*ssa.Phi); ok && ph.Comment == "restartOffset" {
			restartPhi = "phi:" + ph.Comment
		}
	}
	if valPath == "" || restartPhi == "" {
		r.Undecided("block.Builder.Finish:entry-loop", c.blockPos(loop.Header), "cannot locate the entry value / restart counter in the writer loop")
		return
	}
	for _, row := range []struct {
		name      string
		restart   bool
		tombstone bool
	}{{"restart,value", true, false}, {"restart,tombstone", true, true}, {"delta,value", false, false}, {"delta,tombstone", false, true}} {
		zero := int64(0)
		// writer
		scW := &Scenario{Terms: map[string]int64{"phi:rangeindex": 4, valPath: 7, restartPhi: 1, "len(param:" + finish.Params[0].Name() + ".entries)": 50}, Bools: map[string]bool{}, DefaultInt: &zero, MaxVisits: 40}
		if row.restart {
			scW.Terms[restartPhi] = restartK
		}
		if row.tombstone {
			scW.Terms[valPath] = NilRank
		}
		registerCalls(finish, scW, loop.Contains, map[string]int64{"Write": NilRank}, nil)
		for _, ins := range loop.Header.Instrs {
			if ph, ok := ins.(*ssa.Phi); ok && ph.Type().String() == "[]byte" {
				scW.Terms["phi:"+ph.Comment] = 3
				scW.Terms["len(phi:"+ph.Comment+")"] = 0
			}
		}
		evW := EvalLoopIter(loop, scW)
		var wSeq []string
		for _, e := range evW.Effects {
			call, ok := e.Ins.(*ssa.Call)
			if !ok {
				continue
			}
			if staticName(call) == "encoding/binary.Write" {
				if mi, ok := call.Call.Args[2].(*ssa.MakeInterface); ok {
					wSeq = append(wSeq, fmt.Sprint(sizeofBasic(mi.X.Type())))
				}
			}
			if staticName(call) == "(*bytes.Buffer).Write" {
				wSeq = append(wSeq, "bytes")
			}
		}
		// readers: decodeNext (used by Next) for every row; decodeCurrent (used by the Seek* methods, always at a
		// restart point) for the restart rows. Both must consume the writer's field sequence AND leave the cursor behind
		// the entry: a decoder that leaves the cursor on the entry makes the following Next deliver it a second time.
		for _, next := range []*ssa.Function{nextFn, curFn} {
			if next == curFn && !row.restart {
				continue
			}
			it := "param:" + next.Params[0].Name()
			scR := &Scenario{Terms: map[string]int64{it + ".currentPos": 10, it + ".dataEnd": 1000, it + ".currentKey": 3, "len(" + it + ".reader.restartPoints)": 1, it + ".reader.restartPoints[*]": 99}, Bools: map[string]bool{}, MaxVisits: 40}
			big := int64(500)
			scR.DefaultInt = &big
			if row.restart {
				scR.Terms[it+".reader.restartPoints[*]"] = 10
			}
			marker := int64(0xFFFFFFFF)
			if k := c.Const("pkg/sstable/block", "TombstoneValueLengthMarker"); k != nil {
				if u, ok := constant.Uint64Val(k.Val()); ok {
					marker = int64(u)
				}
			}
			// decoded values: lengths small, value length = marker for tombstones
			AllInstrs(next, false, func(_ *ssa.Function, ins ssa.Instruction) {
				call, ok := ins.(*ssa.Call)
				if !ok {
					return
				}
				_, op, w := binaryOrderCall(call)
				if op != "get" {
					return
				}
				if scR.Vals == nil {
					scR.Vals = map[ssa.Value]int64{}
				}
				switch w {
				case 2:
					scR.Vals[call] = 3
				case 8:
					scR.Vals[call] = 42
				case 4:
					if row.tombstone {
						scR.Vals[call] = marker
					} else {
						scR.Vals[call] = 5
					}
				}
			})
			registerCalls(next, scR, nil, map[string]int64{"validateDeltaEncoding": NilRank}, nil)
			evR := EvalPath(next.Blocks[0], nil, scR, nil)
			var rSeq []string
			for _, e := range evR.Effects {
				call, ok := e.Ins.(*ssa.Call)
				if !ok {
					continue
				}
				if _, op, w := binaryOrderCall(call); op == "get" {
					rSeq = append(rSeq, fmt.Sprint(w))
				}
				if b, ok := call.Call.Value.(*ssa.Builtin); ok && b.Name() == "copy" {
					// value / key bytes
					if len(rSeq) == 0 || rSeq[len(rSeq)-1] != "bytes" {
						rSeq = append(rSeq, "bytes")
					}
				}
			}
			rn := "block.entry[" + row.name + "]"
			if next == curFn {
				rn = "block.entry@decodeCurrent[" + row.name + "]"
			}
			if evW.Err != "" || evR.Err != "" || evR.Ret == nil {
				r.Undecided(rn, c.FnPos(next), fmt.Sprintf("trace not decidable: writer %q reader %q", evW.Err, evR.Err))
				continue
			}
			// normalise: in the delta path the reader copies twice (shared prefix + suffix) for one written suffix
			norm := func(seq []string) string {
				var out []string
				for i, s := range seq {
					if s == "bytes" && i > 0 && seq[i-1] == "bytes" {
						continue
					}
					out = append(out, s)
				}
				return strings.Join(out, ",")
			}
			ws, rs := norm(wSeq), norm(rSeq)
			r.Check(ws == rs && len(wSeq) >= 3, rn, c.FnPos(next), "field sequence "+ws+" on both sides", "the writer emits the field sequence ["+ws+"] but the reader consumes ["+rs+"]")
			// the reader's cursor advances by exactly what it consumed
			adv := int64(0)
			for _, e := range evR.Effects {
				if e.Kind == "store" && strings.HasSuffix(e.What, ".currentPos") {
					// value = old + delta: evaluate through the stored instruction
					if st, ok := e.Ins.(*ssa.Store); ok {
						av := (&evaluator{sc: scR, phi: evR.phi}).eval(st.Val, 0)
						if av.Kind == "int" {
							// each store is currentPos (scenario value 10) + increment: accumulate the increments
							adv += av.I - 10
						}
					}
				}
			}
			want := int64(10)
			// consumed: fixed widths + key bytes (3 per length field in this scenario) + value bytes (5 unless tombstone)
			for _, s := range rSeq {
				switch s {
				case "2":
					want += 2
				case "4":
					want += 4
				case "8":
					want += 8
				}
			}
			want += 3 // key bytes (restart: keyLen=3; delta: unsharedLen=3)
			if !row.tombstone {
				want += 5
			}
			r.Check(adv == want-10, rn+":cursor", c.FnPos(next), fmt.Sprintf("cursor advances by the %d bytes consumed", want-10), fmt.Sprintf("the cursor advances by %d bytes but the entry occupies %d: the next entry would be decoded from the wrong position (0: the same entry is decoded again — delivered twice)", adv, want-10))
		}
	}
}

func ruleBlockTrailer(c *Ctx, r *Reporter) {
	r.Rule("block-trailer-agreement", 2)
	finish := c.Func("pkg/sstable/block", "Builder", "Finish")
	newR := c.Func("pkg/sstable/block", "", "NewReader")
	fsz := c.Const("pkg/sstable/block", "BlockFooterSize")
	if finish == nil || newR == nil || fsz == nil {
		r.Unresolved("block.Builder.Finish / block.NewReader / block.BlockFooterSize", "not found")
		return
	}
	fV, _ := constant.Int64Val(fsz.Val())
	// writer: after the entry loop: restart points (uint32 each), count uint32, checksum uint64 — the last two binary.Write
	var widths []int64
	AllInstrs(finish, false, func(_ *ssa.Function, ins ssa.Instruction) {
		call, ok := ins.(*ssa.Call)
		if !ok {
			return
		}
		if staticName(call) == "(*bytes.Buffer).Write" && len(call.Call.Args) == 2 {
			// buffer.Write(tail[:]) with a fixed-size array filled by PutUintNN: a field of that width
			if n := fixedArraySliceLen(call.Call.Args[1]); n > 0 {
				widths = append(widths, n)
			}
			return
		}
		if staticName(call) != "encoding/binary.Write" {
			return
		}
		if mi, ok := call.Call.Args[2].(*ssa.MakeInterface); ok {
			widths = append(widths, sizeofBasic(mi.X.Type()))
		}
	})
	okW := len(widths) >= 3 && widths[len(widths)-1] == 8 && widths[len(widths)-2] == 4 && widths[len(widths)-3] == 4
	// reader: numRestarts = Uint32(data[len-12 : len-8]); checksum = Uint64(data[len-8:]); checksum over data[:len-8]
	df := ExtractOffsetDecoder(newR, isParamNamed(newR, "data"), noGuards)
	var rd []string
	okR := false
	cnt, sum := "", ""
	for _, f := range df {
		rd = append(rd, f.String())
		if f.Width == "4" && cnt == "" {
			cnt = normLin(f.Off)
		}
		if f.Width == "8" {
			sum = normLin(f.Off)
		}
	}
	wantCnt := normLin(fmt.Sprintf("%d + len(param:data)", -fV))
	wantSum := normLin(fmt.Sprintf("%d + len(param:data)", -fV+4))
	okR = cnt == wantCnt && sum == wantSum
	r.Check(okW && okR && fV == 12, "block.trailer", c.FnPos(newR), "restart array, count w4 @len-12, xxhash64 w8 @len-8 on both sides",
		fmt.Sprintf("block trailer layout differs: writer tail widths %v (expected …,4,4,8), reader count@%s checksum@%s (expected %s, %s), BlockFooterSize %d", widths, cnt, sum, wantCnt, wantSum, fV))
	// restart points are read as w4 LE at restartOffset + i*4
	r.Check(len(df) >= 3, "block.trailer:restart-array", c.FnPos(newR), "restart points read as 4-byte little-endian values", "restart points are not read from the trailer")
}

func ruleSstChecksums(c *Ctx, r *Reporter) {
	r.Rule("checksums-verified", 4)
	newR := c.Func("pkg/sstable/block", "", "NewReader")
	dec := c.Func("pkg/sstable/footer", "", "Decode")
	if newR == nil || dec == nil {
		r.Unresolved("block.NewReader / footer.Decode", "not found")
		return
	}
	sumMatch := func(fn *ssa.Function) Fact {
		return func(cond ssa.Value) (bool, bool) {
			bo, ok := cond.(*ssa.BinOp)
			if !ok || (bo.Op != token.EQL && bo.Op != token.NEQ) {
				return false, false
			}
			isSum := func(v ssa.Value) bool {
				v = resolveLoad(v)
				if call, ok := v.(*ssa.Call); ok && strings.HasSuffix(staticName(call), "xxhash/v2.Sum64") {
					return true
				}
				if phi, ok := v.(*ssa.Phi); ok {
					for _, e := range phi.Edges {
						if call, ok := e.(*ssa.Call); !ok || !strings.HasSuffix(staticName(call), "xxhash/v2.Sum64") {
							return false
						}
					}
					return true
				}
				return false
			}
			if !isSum(bo.X) && !isSum(bo.Y) {
				return false, false
			}
			return bo.Op == token.EQL, bo.Op == token.NEQ
		}
	}
	for _, fn := range []*ssa.Function{newR, dec} {
		ok := true
		n := 0
		for _, e := range SuccessExits(fn, false) {
			n++
			if !GuardedBy(e.Block(), sumMatch(fn)) {
				ok = false
			}
		}
		r.Check(ok && n > 0, FnName(fn)+":checksum", c.FnPos(fn), "every success exit is on the computed == stored checksum edge", "a success exit is reachable without the checksum having matched: altered bytes would be accepted")
	}
	// footer magic
	magic := c.Const("pkg/sstable/footer", "FooterMagic")
	okM := false
	if magic != nil {
		isMagic := func(cond ssa.Value) (bool, bool) {
			bo, ok := cond.(*ssa.BinOp)
			if !ok || (bo.Op != token.EQL && bo.Op != token.NEQ) {
				return false, false
			}
			k, ok := bo.Y.(*ssa.Const)
			if !ok || k.Value == nil || k.Value.ExactString() != magic.Val().ExactString() {
				return false, false
			}
			return bo.Op == token.EQL, bo.Op == token.NEQ
		}
		okM = true
		for _, e := range SuccessExits(dec, false) {
			if !GuardedBy(e.Block(), isMagic) {
				okM = false
			}
		}
	}
	r.Check(okM, "footer.Decode:magic", c.FnPos(dec), "every success exit is on the magic-matches edge", "the footer magic is not verified on every success path")
	// FetchBlock goes through block.NewReader
	okF := false
	for _, fn := range c.KevoFns {
		if pkgOf(fn) == "pkg/sstable" && fn.Name() == "FetchBlock" {
			if len(c.CallsIn(fn, NewFnSet(newR), false)) > 0 {
				okF = true
				for _, e := range SuccessExits(fn, true) {
					if bad, _ := MustPass(fn, []ssa.Instruction{e}, func(i ssa.Instruction) bool {
						if c.CallMay(i, NewFnSet(newR)) {
							return true
						}
						// cache hit: a reader previously produced by NewReader
						if call, ok := i.(*ssa.Call); ok && call.Call.StaticCallee() != nil && call.Call.StaticCallee().Name() == "Get" && recvTypeName(call.Call.StaticCallee()) == "sstable.BlockCache" {
							return true
						}
						return false
					}); bad != nil {
						okF = false
					}
				}
			}
		}
	}
	r.Check(okF, "sstable.BlockFetcher.FetchBlock", "-", "blocks reach the iterators only through block.NewReader (or the cache of its results)", "a block can be handed out without passing block.NewReader's checksum verification")
}

func ruleBloomKey(c *Ctx, r *Reporter) {
	r.Rule("bloom-key", 4)
	flush := c.Func("pkg/sstable", "Writer", "flushBlock")
	add := c.Func("pkg/sstable", "Writer", "AddWithSequence")
	newBF := c.Func("pkg/sstable", "", "NewBlockBloomFilterBuilder")
	addKey := c.Func("pkg/sstable", "BlockBloomFilterBuilder", "AddKey")
	get := c.Func("pkg/sstable", "Reader", "Get")
	dataOff := c.Field("pkg/sstable", "Writer", "dataOffset")
	blockOffF := c.Field("pkg/sstable", "IndexEntry", "BlockOffset")
	if flush == nil || add == nil || newBF == nil || addKey == nil || get == nil || dataOff == nil || blockOffF == nil {
		r.Unresolved("sstable.Writer.{flushBlock,AddWithSequence,dataOffset} / NewBlockBloomFilterBuilder / BlockBloomFilterBuilder.AddKey / Reader.Get / IndexEntry.BlockOffset", "not found")
		return
	}
	var advance ssa.Instruction
	AllInstrs(flush, false, func(_ *ssa.Function, ins ssa.Instruction) {
		if st, ok := ins.(*ssa.Store); ok && fieldVarOf(st.Addr) == dataOff {
			advance = ins
		}
	})
	if advance == nil {
		r.Bad("sstable.Writer.flushBlock:advance", c.FnPos(flush), "flushBlock does not advance dataOffset")
		return
	}
	// next filter keyed D+n: its offset argument is loaded from dataOffset AFTER the advance
	for _, s := range c.CallsIn(flush, NewFnSet(newBF), false) {
		arg := s.Common().Args[0]
		ld, isLd := arg.(*ssa.UnOp)
		ok := isLd && isLoadOfField(arg, dataOff) && Dominates(advance, ld)
		r.Check(ok, "sstable.Writer.flushBlock:next-filter-offset", c.InsPos(s), "the next block's filter is keyed by dataOffset after it advanced past the block just written (= the next block's own offset)",
			"the next block's bloom filter is created with the offset read BEFORE dataOffset is advanced, i.e. keyed by the previous block's offset: Reader.Get, which looks filters up by the index entry's offset and skips a block whose filter is absent or negative, misses the keys of every block but the first")
	}
	// index entry records D (before the advance)
	okIdx := false
	AllInstrs(flush, false, func(_ *ssa.Function, ins ssa.Instruction) {
		if st, ok := ins.(*ssa.Store); ok && fieldVarOf(st.Addr) == blockOffF {
			if ld, isLd := st.Val.(*ssa.UnOp); isLd && isLoadOfField(st.Val, dataOff) && Dominates(ld, advance) {
				okIdx = true
			}
		}
	})
	r.Check(okIdx, "sstable.Writer.flushBlock:index-offset", c.FnPos(flush), "the index entry records the offset at which the block starts", "the index entry's BlockOffset is not the block's starting offset")
	// the key is in the current filter before the block can be flushed
	var addKeySites, flushSites []ssa.CallInstruction
	addKeySites = c.CallsIn(add, NewFnSet(addKey), false)
	flushSites = c.CallsIn(add, NewFnSet(flush), false)
	okOrder := len(addKeySites) > 0 && len(flushSites) > 0
	for _, f := range flushSites {
		for _, k := range addKeySites {
			if hit, _ := Reach(add, f, func(i ssa.Instruction) bool { return i == ssa.Instruction(k) }, nil); hit != nil {
				okOrder = false
			}
		}
	}
	r.Check(okOrder, "sstable.Writer.AddWithSequence:filter-before-flush", c.FnPos(add), "the key joins the current block's filter before the block can be flushed", "the key is added to the bloom filter after the block-full flush: the entry that triggers a flush lands in the next block's filter and Reader.Get misses it")
	// reader matches filters by the locator offset
	bfOff := c.Field("pkg/sstable", "BlockBloomFilter", "blockOffset")
	locOff := c.Field("pkg/sstable", "BlockLocator", "Offset")
	okGet := false
	AllInstrs(get, false, func(_ *ssa.Function, ins ssa.Instruction) {
		if bo, ok := ins.(*ssa.BinOp); ok && bo.Op == token.EQL {
			fx, fy := fieldOfAny(bo.X), fieldOfAny(bo.Y)
			if (fx == bfOff && fy == locOff) || (fx == locOff && fy == bfOff) {
				okGet = true
			}
		}
	})
	r.Check(okGet && bfOff != nil && locOff != nil, "sstable.Reader.Get:filter-lookup", c.FnPos(get), "filters are matched by the index entry's block offset", "Reader.Get does not match bloom filters by the index entry's block offset")
}

func fieldOfAny(v ssa.Value) *types.Var {
	switch x := v.(type) {
	case *ssa.UnOp:
		if x.Op == token.MUL {
			return fieldVarOf(x.X)
		}
	case *ssa.Field:
		return fieldVarOf(x)
	}
	return nil
}

var phiNameRE = regexp.MustCompile(`phi:[A-Za-z0-9_]+`)

func ruleBloomSiblings(c *Ctx, r *Reporter) {
	r.Rule("bloom-siblings-agree", 3)
	addF := c.Func("pkg/bloom_filter", "BloomFilter", "Add")
	conF := c.Func("pkg/bloom_filter", "BloomFilter", "Contains")
	setB := c.Func("pkg/bloom_filter", "BloomFilter", "setBit")
	tstB := c.Func("pkg/bloom_filter", "BloomFilter", "testBit")
	hash := c.Func("pkg/bloom_filter", "BloomFilter", "hash")
	save := c.Func("pkg/bloom_filter", "BloomFilter", "SaveToFile")
	load := c.Func("pkg/bloom_filter", "", "LoadBloomFilter")
	if addF == nil || conF == nil || setB == nil || tstB == nil || hash == nil || save == nil || load == nil {
		r.Unresolved("bloomfilter.BloomFilter.{Add,Contains,setBit,testBit,hash,SaveToFile} / LoadBloomFilter", "not found")
		return
	}
	// hash loop shape: for i := 0; i < bf.hashFuncs; i++ { pos := bf.hash(key, i); set/test(pos) }
	shape := func(fn *ssa.Function, bit *ssa.Function) string {
		var parts []string
		for _, l := range GenericLoops(fn) {
			for _, ins := range l.Header.Instrs {
				if iff, ok := ins.(*ssa.If); ok {
					cs := CondString(iff.Cond)
					// orientation: induction variable on the left
					if bo, ok := iff.Cond.(*ssa.BinOp); ok {
						if _, isPhi := bo.Y.(*ssa.Phi); isPhi {
							cs = operandString(bo.Y) + " " + flipOp(bo.Op).String() + " " + operandString(bo.X)
						}
					}
					parts = append(parts, "while "+cs)
				}
				if ph, ok := ins.(*ssa.Phi); ok {
					for i, e := range ph.Edges {
						if !l.Header.Dominates(l.Header.Preds[i]) {
							parts = append(parts, "init "+Path(e))
						} else if bo, ok := e.(*ssa.BinOp); ok {
							parts = append(parts, "step "+bo.Op.String()+Path(bo.Y))
						}
					}
				}
			}
		}
		for _, s := range c.CallsIn(fn, NewFnSet(hash), false) {
			a := s.Common().Args
			parts = append(parts, "hash("+Path(a[1])+","+Path(a[2])+")")
		}
		for _, s := range c.CallsIn(fn, NewFnSet(bit), false) {
			a := s.Common().Args
			src := "?"
			if call, ok := a[1].(*ssa.Call); ok && call.Call.StaticCallee() == hash {
				src = "hash-result"
			}
			parts = append(parts, "bit("+src+")")
		}
		sort.Strings(parts)
		// local names do not matter
		return phiNameRE.ReplaceAllString(strings.Join(parts, "; "), "phi")
	}
	sa, sc := shape(addF, setB), shape(conF, tstB)
	r.Check(sa == sc && strings.Contains(sa, "hash(") && strings.Contains(sa, "bit(hash-result)"), "bloomfilter.Add≈Contains", c.FnPos(conF), "same index range and hash sequence: "+sa,
		"Add and Contains do not probe the same positions: Add ["+sa+"] vs Contains ["+sc+"] — a present key could be reported 'definitely absent' and its block skipped")
	// setBit / testBit: byte index and mask expressions
	bitExpr := func(fn *ssa.Function) string {
		var parts []string
		AllInstrs(fn, false, func(_ *ssa.Function, ins ssa.Instruction) {
			if bo, ok := ins.(*ssa.BinOp); ok {
				switch bo.Op {
				case token.QUO, token.REM, token.SHL:
					parts = append(parts, bo.Op.String()+" "+Path(bo.X)+" "+Path(bo.Y))
				}
			}
		})
		sort.Strings(parts)
		s := strings.Join(parts, "; ")
		// parameter names may differ: normalise the position parameter
		if len(fn.Params) == 2 {
			s = strings.ReplaceAll(s, "param:"+fn.Params[1].Name(), "pos")
		}
		return s
	}
	bs, bt := bitExpr(setB), bitExpr(tstB)
	r.Check(bs == bt && bs != "", "bloomfilter.setBit≈testBit", c.FnPos(tstB), "same bit addressing: "+bs, "setBit and testBit address different bits: ["+bs+"] vs ["+bt+"]")
	// header layout SaveToFile vs LoadBloomFilter
	eb, db := constLenBuffer(save, 32), constLenBuffer(load, 32)
	if eb == nil || db == nil {
		r.Bad("bloomfilter.file-header", c.FnPos(save), "SaveToFile/LoadBloomFilter do not use a 32-byte header")
		return
	}
	ef := ExtractOffsetEncoder(save, func(v ssa.Value) bool { return v == eb }, noGuards)
	df := ExtractOffsetDecoder(load, func(v ssa.Value) bool { return v == db }, noGuards)
	diffs, rendered := CompareCodec(ef, df)
	// field identity: writer value field name vs the struct field the reader initialises
	okNames := len(ef) == 4 && len(df) == 4
	if okNames {
		for i := range ef {
			wn := ef[i].Val
			if j := strings.LastIndex(wn, "."); j >= 0 {
				wn = wn[j+1:]
			}
			rn := storedField(df[i].val, 0)
			if rn != "" && rn != wn {
				okNames = false
				diffs = append(diffs, fmt.Sprintf("field %d: writer stores %s, reader loads it as %s", i, wn, rn))
			}
		}
	}
	r.Check(len(diffs) == 0 && okNames, "bloomfilter.file-header", c.FnPos(load), strings.Join(rendered, " ; "), "bloom filter file header differs between SaveToFile and LoadBloomFilter: "+strings.Join(diffs, "; "))
}

func ruleIndexFirstKey(c *Ctx, r *Reporter) {
	r.Rule("index-first-key", 2)
	flush := c.Func("pkg/sstable", "Writer", "flushBlock")
	firstKeyF := c.Field("pkg/sstable", "IndexEntry", "FirstKey")
	addIdx := c.Func("pkg/sstable", "IndexBuilder", "AddIndexEntry")
	if flush == nil || firstKeyF == nil || addIdx == nil {
		r.Unresolved("sstable.Writer.flushBlock / IndexEntry.FirstKey / IndexBuilder.AddIndexEntry", "not found")
		return
	}
	ok := false
	AllInstrs(flush, false, func(_ *ssa.Function, ins ssa.Instruction) {
		if st, isSt := ins.(*ssa.Store); isSt && fieldVarOf(st.Addr) == firstKeyF {
			p := (&evaluator{sc: &Scenario{}, phi: map[*ssa.Phi]ssa.Value{}}).pathOf(st.Val)
			if strings.Contains(p, "[0].Key") {
				ok = true
			}
		}
	})
	r.Check(ok, "sstable.Writer.flushBlock:first-key", c.FnPos(flush), "the index entry's key is element 0 of the block's entries", "the index entry's key is not the block's first key (index seeks would select the wrong block)")
	// added only after the block was written completely
	complete := func(cond ssa.Value) (bool, bool) {
		bo, isB := cond.(*ssa.BinOp)
		if !isB || (bo.Op != token.NEQ && bo.Op != token.EQL) {
			return false, false
		}
		p := Path(bo.X) + " " + Path(bo.Y)
		if strings.Contains(p, "len(") && strings.Contains(p, "Write(") {
			return bo.Op == token.EQL, bo.Op == token.NEQ
		}
		return false, false
	}
	okA := false
	for _, s := range c.CallsIn(flush, NewFnSet(addIdx), false) {
		if GuardedBy(s.Block(), complete) {
			okA = true
		}
	}
	r.Check(okA, "sstable.Writer.flushBlock:index-after-write", c.FnPos(flush), "the index entry is added only after the block was written completely (n == len(blockData))", "the index entry is added without the block having been written completely")
}

// ruleNoNarrowArithmetic: additions/subtractions/shifts whose operands are 8- or 16-bit values (not both constants) in
// the codec packages: lengths must be widened before arithmetic or the result wraps at the format limits.
func ruleNoNarrowArithmetic(c *Ctx, r *Reporter) {
	r.Rule("no-narrow-arithmetic", 1)
	n := 0
	checked := 0
	for _, fn := range c.KevoFns {
		p := pkgOf(fn)
		if !(strings.HasPrefix(p, "pkg/sstable") || p == "pkg/wal") {
			continue
		}
		AllInstrs(fn, false, func(_ *ssa.Function, ins ssa.Instruction) {
			bo, ok := ins.(*ssa.BinOp)
			if !ok {
				return
			}
			switch bo.Op {
			case token.ADD, token.SUB, token.MUL:
			default:
				return
			}
			bt, ok := bo.Type().Underlying().(*types.Basic)
			if !ok {
				return
			}
			switch bt.Kind() {
			case types.Uint8, types.Uint16, types.Int8, types.Int16:
			default:
				return
			}
			_, k1 := bo.X.(*ssa.Const)
			_, k2 := bo.Y.(*ssa.Const)
			if k1 && k2 {
				return
			}
			checked++
			n++
			r.Bad(FnName(fn)+":"+bo.Op.String()+"("+bt.Name()+")", c.InsPos(ins), "arithmetic on "+bt.Name()+" operands in a codec: the result wraps at the format limit (lengths must be converted to a wider type BEFORE they are added)")
		})
	}
	if n == 0 {
		r.OK("codec arithmetic", "-", "no 8/16-bit arithmetic in pkg/sstable/** and pkg/wal")
	}
}

// fixedArraySliceLen: v is arr[:] of a local fixed-size byte array: its length; 0 otherwise.
func fixedArraySliceLen(v ssa.Value) int64 {
	sl, ok := v.(*ssa.Slice)
	if !ok || sl.Low != nil || sl.High != nil {
		return 0
	}
	al, ok := sl.X.(*ssa.Alloc)
	if !ok {
		return 0
	}
	if at, ok := al.Type().Underlying().(*types.Pointer).Elem().Underlying().(*types.Array); ok {
		return at.Len()
	}
	return 0
}
