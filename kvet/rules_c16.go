package main

import (
	"fmt"
	"go/token"
	"go/types"
	"sort"
	"strings"

	"golang.org/x/tools/go/ssa"
)

func init() {
	register(&PropertyDef{
		ID: "C16",
		Explanation: "Decides the structural mechanism behind 'a replica refuses client writes but keeps applying replicated ones': " +
			"(1) every exported EngineFacade method (and every interfaces.Engine method) is classified by computation as mutator / bypass / read; " +
			"(2) in every non-bypass mutator the readOnly test (directly or through a guard helper) dominates every call that can reach storage.Manager.Put/Delete/ApplyBatch, and BeginTransaction forces read-only when the flag is set; " +
			"(3) the bypass methods are called only from replication.EngineApplier, readOnly is stored only by SetReadOnly, SetReadOnly is called only from the replication manager/applier; " +
			"(4) storage mutators are called only from the facade and TransactionImpl.Commit; TransactionImpl.Put/Delete test the mode before buffering and Commit reaches ApplyBatch only on the read-write arm; " +
			"(5) the applier's read-only arm reaches PutInternal/DeleteInternal first; (6) startReplica sets the flag on every success path with ForceReadOnly, cmd/kevo passes ForceReadOnly:true; " +
			"(7) GetNodeInfo's readOnly result is engine.IsReadOnly(), role is config.Mode, and the service copies results field to field. " +
			"Added after blind round 4: reflective method lookups (which the call graph cannot see) name only the engine's own BeginTransaction, the guarded door. " +
			"Added after blind round 5: the replication manager only raises the read-only flag (setEngineReadOnly(true)); the raw transaction lock is used only by Begin and the release helpers (the *Internal entry points do not take it). " +
			"Added after blind round 6: Manager.GetNodeInfo's read-only result resolves to engine.IsReadOnly() on every path (false only without engine or configuration). " +
			"Added after blind round 7: the service hands the registry the engine itself (EngineFacade.BeginTransaction is the only place that downgrades a read-write request on a replica). " +
			"Added after blind round 8: every comparison with a replication-mode constant is made on the stored string itself, never on a transformed value (the interpreters of the mode must agree). " +
			"Added after blind round 9: a mutating handler of the service reports success only behind the embedded mutating call of its row — the read-only refusal lives there. " +
			"Added after blind round 10: startReplica copies ManagerConfig.PrimaryAddr — the address GetNodeInfo reports — into the replica's connection configuration on every path to NewReplica.",
		NotDecided: "that data stays byte-identical (follows from the guard dominating every effect); interleavings of client calls with replication apply; the window between replica.Start() and SetReadOnly(true) (reported as info).",
		Rules:      []func(*Ctx, *Reporter){ruleC16Mutators, ruleC16Who, ruleC16Tx, ruleC16Applier, ruleC16Start, ruleC16NodeInfo, ruleReflectiveDoors, ruleReadOnlyOnlyRaised, ruleTxLockWriters, ruleNodeInfoReadOnlyFromEngine, ruleServiceBeginsThroughEngine, ruleModeComparedVerbatim, ruleServiceSuccessOnlyAfterEngine, ruleReplicaDialsReportedAddress},
	})
}

var c16Bypass = map[string]bool{"PutInternal": true, "DeleteInternal": true, "ApplyBatchInternal": true}

func storageMutators(c *Ctx) FnSet {
	return NewFnSet(
		c.Func("pkg/engine/storage", "Manager", "Put"),
		c.Func("pkg/engine/storage", "Manager", "Delete"),
		c.Func("pkg/engine/storage", "Manager", "ApplyBatch"))
}

// readOnlyFalseFact: fact "EngineFacade.readOnly is false" on the edges of a condition; guardFns are helpers
// whose nil result implies the fact.
func readOnlyFalseFact(c *Ctx, field *types.Var, guardFns FnSet) Fact {
	return func(cond ssa.Value) (bool, bool) {
		// direct: e.readOnly.Load()
		if call, ok := cond.(*ssa.Call); ok {
			if name, addr, _ := atomicCall(call); name == "Load" && fieldVarOf(addr) == field {
				return false, true
			}
			// bool helper: IsReadOnly()
			if f := call.Call.StaticCallee(); f != nil && f.Name() == "IsReadOnly" && recvTypeName(f) == "engine.EngineFacade" {
				return false, true
			}
		}
		// err := guard(); err != nil
		if v, trueIsNonNil, ok := nilTest(cond); ok {
			if call, ok := stripConv(v).(*ssa.Call); ok {
				if f := call.Call.StaticCallee(); f != nil && guardFns[f] {
					if trueIsNonNil {
						return false, true
					}
					return true, false
				}
			}
		}
		return false, false
	}
}

func ruleC16Mutators(c *Ctx, r *Reporter) {
	r.Rule("mutator-enumeration", 20)
	field := c.Field("pkg/engine", "EngineFacade", "readOnly")
	errRO := c.Global("pkg/engine", "ErrReadOnlyMode")
	muts := storageMutators(c)
	txBegin := c.Func("pkg/transaction", "Manager", "BeginTransaction")
	if field == nil || errRO == nil || len(muts) != 3 || txBegin == nil {
		r.Unresolved("engine.EngineFacade.readOnly / engine.ErrReadOnlyMode / storage.Manager.{Put,Delete,ApplyBatch} / transaction.Manager.BeginTransaction", "a named anchor no longer resolves")
		return
	}
	targets := FnSet{}
	for f := range muts {
		targets[f] = true
	}
	targets[txBegin] = true
	reach := c.ReachSet(targets, true)

	// guard helpers: functions of package engine with an error result whose every non-failing exit is on a readOnly==false edge
	guardFns := FnSet{}
	for round := 0; round < 2; round++ {
		fact := readOnlyFalseFact(c, field, guardFns)
		for _, fn := range c.KevoFns {
			if pkgOf(fn) != "pkg/engine" || guardFns[fn] || errResultIndex(fn) < 0 || fn.Signature.Results().Len() != 1 {
				continue
			}
			exits := SuccessExits(fn, true)
			if len(exits) == 0 {
				continue
			}
			all := true
			for _, e := range exits {
				if !GuardedBy(e.Block(), fact) {
					all = false
				}
			}
			// and it must actually test the flag
			tests := false
			AllInstrs(fn, false, func(_ *ssa.Function, ins ssa.Instruction) {
				if name, addr, _ := atomicCall(ins); name == "Load" && fieldVarOf(addr) == field {
					tests = true
				}
			})
			if all && tests {
				guardFns[fn] = true
			}
		}
	}
	fact := readOnlyFalseFact(c, field, guardFns)

	methods := c.exportedMethods("pkg/engine", "EngineFacade")
	if len(methods) == 0 {
		r.Unresolved("engine.EngineFacade", "no exported methods found")
		return
	}
	// interface coverage: every interfaces.Engine method has a facade method
	if iface := c.Named("pkg/engine/interfaces", "Engine"); iface != nil {
		it := iface.Underlying().(*types.Interface)
		have := map[string]bool{}
		for _, m := range methods {
			have[m.Name()] = true
		}
		for i := 0; i < it.NumMethods(); i++ {
			if !have[it.Method(i).Name()] {
				r.Bad("interfaces.Engine."+it.Method(i).Name(), "-", "interface method has no EngineFacade implementation to classify")
			}
		}
	} else {
		r.Unresolved("interfaces.Engine", "interface not found")
	}

	guardedMutators := FnSet{}
	var mutNames, readNames []string
	type pending struct {
		fn *ssa.Function
	}
	var nonBypass []*ssa.Function
	for _, m := range methods {
		isMut := reach[m]
		switch {
		case isMut && c16Bypass[m.Name()]:
			r.OK("engine.EngineFacade."+m.Name(), c.FnPos(m), "classified: bypass (frozen allow-list)")
			mutNames = append(mutNames, m.Name()+"(bypass)")
		case isMut:
			nonBypass = append(nonBypass, m)
			mutNames = append(mutNames, m.Name())
		default:
			r.OK("engine.EngineFacade."+m.Name(), c.FnPos(m), "classified: read/maintenance (no call path to a storage mutator or to a transaction begin)")
			readNames = append(readNames, m.Name())
			if c16Bypass[m.Name()] {
				r.Bad("engine.EngineFacade."+m.Name()+":bypass-dead", c.FnPos(m), "bypass method no longer reaches storage: replicated operations would not be applied")
			}
		}
	}
	for _, m := range nonBypass {
		guardedMutators[m] = true
	}
	r.Notes = append(r.Notes, "C16 mutators: "+strings.Join(mutNames, ", "), "C16 reads: "+strings.Join(readNames, ", "), "C16 guard helpers: "+strings.Join(guardFns.Names(), ", "))

	r.Rule("guard-dominates-effect", 4)
	for _, m := range nonBypass {
		name := "engine.EngineFacade." + m.Name()
		// capability hand-outs: methods that only return an object (no call into it) are reported separately
		okAll := true
		nSites := 0
		AllInstrs(m, true, func(fn *ssa.Function, ins ssa.Instruction) {
			ci, ok := ins.(ssa.CallInstruction)
			if !ok {
				return
			}
			var hot []*ssa.Function
			for _, cal := range c.Callees(ci) {
				if reach[cal] || targets[cal] {
					hot = append(hot, cal)
				}
			}
			if len(hot) == 0 {
				return
			}
			nSites++
			// a callee that is itself a guarded facade mutator carries its own guard
			allGuardedCallees := true
			for _, h := range hot {
				if !(guardedMutators[h] && h != m) {
					allGuardedCallees = false
				}
			}
			if allGuardedCallees {
				return
			}
			if GuardedBy(ins.Block(), fact) {
				return
			}
			// BeginTransaction idiom: the flag forces the readOnly argument to true
			if c.CallMay(ins, NewFnSet(txBegin)) && len(ci.Common().Args) >= 1 {
				args := ci.Common().Args
				arg := args[len(args)-1]
				if forcedTrueWhenFlag(arg, fact) {
					return
				}
			}
			okAll = false
			r.Bad(name+"→"+FnName(hot[0]), c.InsPos(ins), "call that can reach a storage mutation is not dominated by the read-only test (no readOnly==false edge dominates it)")
		})
		if nSites == 0 {
			r.Undecided(name, c.FnPos(m), "classified mutator but no effect call site found in its body")
			continue
		}
		if okAll {
			r.OK(name, c.FnPos(m), fmt.Sprintf("%d effect call site(s), each dominated by the readOnly==false edge (or forced read-only argument)", nSites))
		}
		// the refusal must be the read-only error for direct mutators (not BeginTransaction)
		if m.Name() != "BeginTransaction" {
			found := false
			for _, ret := range Returns(m) {
				if returnsGlobalErr(ret, errRO) {
					found = true
				}
			}
			if !found {
				// guard helper may return it
				for g := range guardFns {
					for _, ret := range Returns(g) {
						if returnsGlobalErr(ret, errRO) {
							found = true
						}
					}
				}
			}
			r.Check(found, name+":returns-ErrReadOnlyMode", c.FnPos(m), "refusal returns engine.ErrReadOnlyMode", "mutator has no exit returning engine.ErrReadOnlyMode")
		}
	}

	// capability leaks (info)
	r.Rule("capability-leaks", 0)
	for _, m := range methods {
		res := m.Signature.Results()
		for i := 0; i < res.Len(); i++ {
			ts := res.At(i).Type().String()
			if strings.Contains(ts, "transaction.TransactionManager") || strings.Contains(ts, "wal.WAL") || strings.Contains(ts, "sync.RWMutex") {
				r.Info("engine.EngineFacade."+m.Name(), c.FnPos(m), "hands out "+ts+" through which a mutation is reachable without the read-only guard (not part of interfaces.Engine)")
			}
		}
	}
}

// forcedTrueWhenFlag: arg is a phi whose every incoming edge is either the constant true or comes from a block on
// which the flag is known false.
func forcedTrueWhenFlag(arg ssa.Value, fact Fact) bool {
	phi, ok := arg.(*ssa.Phi)
	if !ok {
		return false
	}
	sawTrue := false
	for i, e := range phi.Edges {
		if b, ok := constBool(e); ok && b {
			sawTrue = true
			continue
		}
		pred := phi.Block().Preds[i]
		if GuardedBy(pred, fact) {
			continue
		}
		// the edge itself may be the false edge of the test
		if len(pred.Instrs) > 0 {
			if iff, ok := pred.Instrs[len(pred.Instrs)-1].(*ssa.If); ok {
				t, f := withNot(fact)(iff.Cond)
				if (f && pred.Succs[1] == phi.Block()) || (t && pred.Succs[0] == phi.Block()) {
					continue
				}
			}
		}
		return false
	}
	return sawTrue
}

func ruleC16Who(c *Ctx, r *Reporter) {
	r.Rule("bypass-callers", 3)
	for name := range c16Bypass {
		f := c.Func("pkg/engine", "EngineFacade", name)
		if f == nil {
			r.Unresolved("engine.EngineFacade."+name, "bypass method not found")
			continue
		}
		bad := false
		n := 0
		for _, e := range c.Callers(f) {
			if e.Site == nil {
				continue
			}
			caller := e.Caller.Func
			if !c.InKevo(caller) {
				continue
			}
			n++
			if recvTypeName(topParent(caller)) != "replication.EngineApplier" {
				bad = true
				r.Bad("engine.EngineFacade."+name+"←"+FnName(caller), c.InsPos(e.Site), "read-only bypass called from outside replication.EngineApplier")
			}
		}
		// name-based sweep over interface invocations (assertions to anonymous interfaces)
		for _, fn := range c.KevoFns {
			AllInstrs(fn, false, func(_ *ssa.Function, ins ssa.Instruction) {
				ci, ok := ins.(ssa.CallInstruction)
				if !ok || !ci.Common().IsInvoke() || ci.Common().Method.Name() != name {
					return
				}
				if recvTypeName(topParent(fn)) != "replication.EngineApplier" {
					bad = true
					r.Bad("engine.EngineFacade."+name+"←"+FnName(fn), c.InsPos(ins), "read-only bypass invoked (through an interface) outside replication.EngineApplier")
				}
			})
		}
		if !bad {
			r.OK("engine.EngineFacade."+name, c.FnPos(f), fmt.Sprintf("%d resolved call site(s), all in replication.EngineApplier", n))
		}
	}

	r.Rule("flag-writers", 1)
	field := c.Field("pkg/engine", "EngineFacade", "readOnly")
	if field == nil {
		r.Unresolved("engine.EngineFacade.readOnly", "field not found")
		return
	}
	setRO := c.Func("pkg/engine", "EngineFacade", "SetReadOnly")
	nW := 0
	for _, fn := range c.KevoFns {
		AllInstrs(fn, false, func(_ *ssa.Function, ins ssa.Instruction) {
			name, addr, _ := atomicCall(ins)
			if name == "" || fieldVarOf(addr) != field {
				return
			}
			if name == "Load" {
				return
			}
			nW++
			if fn != setRO {
				r.Bad("engine.EngineFacade.readOnly←"+FnName(fn), c.InsPos(ins), "read-only flag written ("+name+") outside SetReadOnly")
			}
		})
		// plain (non-atomic) stores into the field
		AllInstrs(fn, false, func(_ *ssa.Function, ins ssa.Instruction) {
			if st, ok := ins.(*ssa.Store); ok && fieldVarOf(st.Addr) == field {
				r.Bad("engine.EngineFacade.readOnly←"+FnName(fn)+":plain", c.InsPos(ins), "plain store to the atomic read-only flag")
			}
		})
	}
	if setRO == nil {
		r.Unresolved("engine.EngineFacade.SetReadOnly", "not found")
	} else {
		r.Check(nW >= 1, "engine.EngineFacade.readOnly", c.FnPos(setRO), fmt.Sprintf("%d writer(s), all in SetReadOnly", nW), "no writer of the flag found")
		// callers of SetReadOnly
		allowed := map[string]bool{"replication.Manager.setEngineReadOnly": true, "replication.EngineApplier.applyInReadOnlyMode": true}
		for _, fn := range c.KevoFns {
			AllInstrs(fn, false, func(_ *ssa.Function, ins ssa.Instruction) {
				ci, ok := ins.(ssa.CallInstruction)
				if !ok {
					return
				}
				hit := false
				if ci.Common().IsInvoke() && ci.Common().Method.Name() == "SetReadOnly" {
					hit = true
				}
				if f := ci.Common().StaticCallee(); f == setRO {
					hit = true
				}
				if !hit {
					return
				}
				who := FnName(topParent(fn))
				if allowed[who] {
					if who == "replication.EngineApplier.applyInReadOnlyMode" {
						r.Info("SetReadOnly←"+who, c.InsPos(ins), "fallback arm toggles the flag around a guarded call (dead for EngineFacade, which offers the *Internal methods)")
					} else {
						r.OK("SetReadOnly←"+who, c.InsPos(ins), "allowed caller")
					}
					return
				}
				if strings.HasPrefix(who, "main.") || pkgOf(fn) == "cmd/kevo" {
					r.Info("SetReadOnly←"+who, c.InsPos(ins), "called from the command")
					return
				}
				r.Bad("SetReadOnly←"+who, c.InsPos(ins), "read-only flag toggled from an unlisted caller")
			})
		}
	}

	r.Rule("storage-mutator-callers", 3)
	allowedCaller := func(fn *ssa.Function) bool {
		top := topParent(fn)
		rt := recvTypeName(top)
		switch rt {
		case "engine.EngineFacade":
			return true
		case "transaction.TransactionImpl":
			return top.Name() == "Commit"
		case "storage.Manager":
			return true
		}
		return false
	}
	for m := range storageMutators(c) {
		bad := false
		n := 0
		for _, e := range c.Callers(m) {
			if e.Site == nil || !c.InKevo(e.Caller.Func) {
				continue
			}
			n++
			if !allowedCaller(e.Caller.Func) {
				// cmd/storage-bench and other tools use the storage directly; they are not part of the served API
				if strings.HasPrefix(pkgOf(e.Caller.Func), "cmd/storage-bench") {
					continue
				}
				bad = true
				r.Bad(FnName(m)+"←"+FnName(e.Caller.Func), c.InsPos(e.Site), "storage mutator called from outside the facade / transaction commit: the read-only guard is bypassed")
			}
		}
		if !bad {
			r.OK(FnName(m), c.FnPos(m), fmt.Sprintf("%d call site(s), all in EngineFacade methods or TransactionImpl.Commit", n))
		}
	}
	// nothing outside storage/memtable/wal appends to the WAL or writes memtables directly (service layer included)
	r.Rule("service-goes-through-the-engine", 1)
	lowLevel := NewFnSet(
		c.Func("pkg/wal", "WAL", "Append"), c.Func("pkg/wal", "WAL", "AppendBatch"),
		c.Func("pkg/wal", "WAL", "AppendWithSequence"), c.Func("pkg/wal", "WAL", "AppendBatchWithSequence"), c.Func("pkg/wal", "WAL", "AppendExactBytes"),
		c.Func("pkg/memtable", "MemTablePool", "Put"), c.Func("pkg/memtable", "MemTablePool", "Delete"))
	badLow := false
	nLow := 0
	var lows []*ssa.Function
	for f := range lowLevel {
		lows = append(lows, f)
	}
	sort.Slice(lows, func(i, j int) bool { return lows[i].String() < lows[j].String() })
	for _, f := range lows {
		for _, e := range c.Callers(f) {
			if e.Site == nil || !c.InKevo(e.Caller.Func) {
				continue
			}
			nLow++
			p := pkgOf(e.Caller.Func)
			if p == "pkg/engine/storage" || p == "pkg/wal" || p == "pkg/memtable" || strings.HasPrefix(p, "cmd/storage-bench") {
				continue
			}
			badLow = true
			r.Bad(FnName(f)+"←"+FnName(e.Caller.Func), c.InsPos(e.Site), "log append / memtable write reached from outside the storage layer (bypasses the engine's guards)")
		}
	}
	if !badLow {
		r.OK("wal.Append*/MemTablePool.Put/Delete", "-", fmt.Sprintf("%d call site(s), all inside pkg/engine/storage, pkg/wal, pkg/memtable", nLow))
	}
}

func ruleC16Tx(c *Ctx, r *Reporter) {
	r.Rule("tx-mode-guard", 3)
	modeField := c.Field("pkg/transaction", "TransactionImpl", "mode")
	bufPut := c.Func("pkg/transaction", "Buffer", "Put")
	bufDel := c.Func("pkg/transaction", "Buffer", "Delete")
	if modeField == nil || bufPut == nil || bufDel == nil {
		r.Unresolved("transaction.TransactionImpl.mode / Buffer.Put / Buffer.Delete", "anchor not found")
		return
	}
	roConst := c.Const("pkg/transaction", "ReadOnly")
	notReadOnly := func(cond ssa.Value) (bool, bool) {
		bo, ok := cond.(*ssa.BinOp)
		if !ok || (bo.Op != token.EQL && bo.Op != token.NEQ) {
			return false, false
		}
		var other ssa.Value
		if isLoadOfField(bo.X, modeField) {
			other = bo.Y
		} else if isLoadOfField(bo.Y, modeField) {
			other = bo.X
		} else {
			return false, false
		}
		k, ok := other.(*ssa.Const)
		if !ok || roConst == nil || k.Value == nil || k.Value.ExactString() != roConst.Val().ExactString() {
			return false, false
		}
		if bo.Op == token.EQL {
			return false, true
		}
		return true, false
	}
	for _, mn := range []string{"Put", "Delete"} {
		m := c.Func("pkg/transaction", "TransactionImpl", mn)
		if m == nil {
			r.Unresolved("transaction.TransactionImpl."+mn, "not found")
			continue
		}
		sites := c.CallsIn(m, NewFnSet(bufPut, bufDel), true)
		if len(sites) == 0 {
			r.Undecided("transaction.TransactionImpl."+mn, c.FnPos(m), "no buffer write found")
			continue
		}
		ok := true
		for _, s := range sites {
			if !GuardedBy(s.Block(), notReadOnly) {
				ok = false
				r.Bad("transaction.TransactionImpl."+mn, c.InsPos(s), "buffer write not dominated by the mode != ReadOnly edge: a read-only transaction (forced on a replica) could buffer writes")
			}
		}
		if ok {
			r.OK("transaction.TransactionImpl."+mn, c.FnPos(m), "buffer write dominated by mode != ReadOnly")
		}
	}
	commit := c.Func("pkg/transaction", "TransactionImpl", "Commit")
	apply := c.Func("pkg/engine/storage", "Manager", "ApplyBatch")
	if commit == nil || apply == nil {
		r.Unresolved("transaction.TransactionImpl.Commit", "not found")
		return
	}
	// in Commit: the ApplyBatch call is not reachable on the mode == ReadOnly edge
	okc := true
	n := 0
	AllInstrs(commit, true, func(fn *ssa.Function, ins ssa.Instruction) {
		ci, isCall := ins.(ssa.CallInstruction)
		if !isCall {
			return
		}
		hit := c.CallMay(ins, NewFnSet(apply)) || (ci.Common().IsInvoke() && ci.Common().Method.Name() == "ApplyBatch")
		if !hit {
			return
		}
		n++
		// ApplyBatch must not be reachable from the mode==ReadOnly edge: every If testing mode==ReadOnly must have its
		// 'is read-only' successor unable to reach this call
		for _, b := range fn.Blocks {
			if len(b.Instrs) == 0 {
				continue
			}
			iff, isIf := b.Instrs[len(b.Instrs)-1].(*ssa.If)
			if !isIf {
				continue
			}
			t, f := withNot(notReadOnly)(iff.Cond)
			if !t && !f {
				continue
			}
			roSucc := b.Succs[0]
			if t {
				roSucc = b.Succs[1]
			}
			if len(roSucc.Instrs) > 0 {
				if found, _ := Reach(fn, nil, func(i ssa.Instruction) bool { return i == ins }, nil); found != nil {
					// reachable at all; now from the read-only successor?
					start := roSucc.Instrs[0]
					if start == ins {
						okc = false
					} else if f2, _ := Reach(fn, start, func(i ssa.Instruction) bool { return i == ins }, nil); f2 != nil {
						okc = false
					}
				}
			}
		}
		if !GuardedBy(ins.Block(), notReadOnly) {
			// acceptable only if the read-only arm returns before (checked above); record how it was discharged
		}
	})
	if n == 0 {
		r.Undecided("transaction.TransactionImpl.Commit", c.FnPos(commit), "no ApplyBatch call found in Commit")
	} else {
		r.Check(okc, "transaction.TransactionImpl.Commit", c.FnPos(commit), "ApplyBatch unreachable from the mode == ReadOnly arm", "ApplyBatch reachable on the read-only arm of Commit")
	}
}

func ruleC16Applier(c *Ctx, r *Reporter) {
	r.Rule("applier-uses-the-bypass", 2)
	fn := c.Func("pkg/replication", "EngineApplier", "applyInReadOnlyMode")
	apply := c.Func("pkg/replication", "EngineApplier", "Apply")
	if fn == nil || apply == nil {
		r.Unresolved("replication.EngineApplier.{Apply,applyInReadOnlyMode}", "not found")
		return
	}
	// Apply reaches applyInReadOnlyMode on the isReadOnly edge
	reachRO := len(c.CallsIn(apply, NewFnSet(fn), false)) > 0
	r.Check(reachRO, "replication.EngineApplier.Apply", c.FnPos(apply), "delegates to the read-only arm", "Apply no longer calls applyInReadOnlyMode")
	// in the read-only arm, for the put and delete cases, the first engine call on the path is the *Internal one:
	// no call to engine.Put/Delete (guarded twins) dominates... simply: PutInternal and DeleteInternal are invoked, and
	// each invocation is not dominated by a guarded-twin call
	for _, pair := range [][2]string{{"PutInternal", "Put"}, {"DeleteInternal", "Delete"}} {
		var internalSites, twinSites []ssa.Instruction
		AllInstrs(fn, false, func(_ *ssa.Function, ins ssa.Instruction) {
			ci, ok := ins.(ssa.CallInstruction)
			if !ok || !ci.Common().IsInvoke() {
				return
			}
			switch ci.Common().Method.Name() {
			case pair[0]:
				internalSites = append(internalSites, ins)
			case pair[1]:
				twinSites = append(twinSites, ins)
			}
		})
		name := "replication.EngineApplier.applyInReadOnlyMode:" + pair[0]
		if len(internalSites) == 0 {
			r.Bad(name, c.FnPos(fn), "read-only arm never calls "+pair[0]+": a replica would stop applying replicated "+pair[1]+" operations (the guarded twin refuses)")
			continue
		}
		ok := true
		for _, is := range internalSites {
			for _, ts := range twinSites {
				if Dominates(ts, is) {
					ok = false
				}
			}
		}
		// the *Internal call must be reachable without first passing a twin call: search from entry to internal site with twins as stops
		twin := map[ssa.Instruction]bool{}
		for _, t := range twinSites {
			twin[t] = true
		}
		reached := false
		for _, is := range internalSites {
			if f, _ := Reach(fn, nil, func(i ssa.Instruction) bool { return i == is }, func(i ssa.Instruction) bool { return twin[i] }); f != nil {
				reached = true
			}
		}
		r.Check(ok && reached, name, c.InsPos(internalSites[0]), pair[0]+" is the first choice on the read-only arm", pair[0]+" is preceded by the guarded "+pair[1])
	}
	// sibling agreement: X and XInternal make the same storage call
	r.Rule("internal-twins-agree", 3)
	for _, pair := range [][2]string{{"Put", "PutInternal"}, {"Delete", "DeleteInternal"}, {"ApplyBatch", "ApplyBatchInternal"}} {
		a := c.Func("pkg/engine", "EngineFacade", pair[0])
		b := c.Func("pkg/engine", "EngineFacade", pair[1])
		if a == nil || b == nil {
			r.Unresolved("engine.EngineFacade."+pair[0]+"/"+pair[1], "not found")
			continue
		}
		sa, sb := storageCallNames(c, a), storageCallNames(c, b)
		r.Check(sa == sb && sa != "", "engine.EngineFacade."+pair[0]+"≈"+pair[1], c.FnPos(b),
			"same storage/compaction effects: "+sa, fmt.Sprintf("twins differ in effects: %s makes [%s], %s makes [%s]", pair[0], sa, pair[1], sb))
	}
}

// storageCallNames lists, sorted, the storage/compaction interface methods a facade method invokes.
func storageCallNames(c *Ctx, fn *ssa.Function) string {
	set := map[string]bool{}
	visit := func(_ *ssa.Function, ins ssa.Instruction) {
		ci, ok := ins.(ssa.CallInstruction)
		if !ok {
			return
		}
		cc := ci.Common()
		if cc.IsInvoke() {
			ts := cc.Value.Type().String()
			if strings.HasSuffix(ts, "interfaces.StorageManager") || strings.HasSuffix(ts, "interfaces.CompactionManager") {
				set[cc.Method.Name()] = true
			}
		}
	}
	AllInstrs(fn, true, visit)
	// bookkeeping moved into an unexported helper on the same receiver is still this method's effect
	AllInstrs(fn, true, func(_ *ssa.Function, ins ssa.Instruction) {
		ci, ok := ins.(ssa.CallInstruction)
		if !ok {
			return
		}
		h := ci.Common().StaticCallee()
		if h == nil || h == fn || len(h.Blocks) == 0 || h.Object() == nil || h.Object().Exported() || recvTypeName(h) == "" || recvTypeName(h) != recvTypeName(fn) {
			return
		}
		AllInstrs(h, true, visit)
	})
	var out []string
	for k := range set {
		out = append(out, k)
	}
	sort.Strings(out)
	return strings.Join(out, ",")
}

func ruleC16Start(c *Ctx, r *Reporter) {
	r.Rule("replica-start-sets-the-flag", 2)
	start := c.Func("pkg/replication", "Manager", "startReplica")
	setRO := c.Func("pkg/replication", "Manager", "setEngineReadOnly")
	force := c.Field("pkg/replication", "ManagerConfig", "ForceReadOnly")
	if start == nil || setRO == nil || force == nil {
		r.Unresolved("replication.Manager.{startReplica,setEngineReadOnly} / ManagerConfig.ForceReadOnly", "not found")
		return
	}
	forceFalse := func(cond ssa.Value) (bool, bool) {
		if isLoadOfField(cond, force) {
			return false, true
		}
		return false, false
	}
	exits := SuccessExits(start, true)
	bad, path := MustPassE(start, exits, func(i ssa.Instruction) bool {
		if c.CallMust(i, NewFnSet(setRO)) {
			ci := i.(ssa.CallInstruction)
			args := ci.Common().Args
			if b, ok := constBool(args[len(args)-1]); ok && b {
				return true
			}
		}
		return false
	}, PruneFactEdges(forceFalse)) // paths on which ForceReadOnly is false are outside the rule
	if bad != nil {
		r.Bad("replication.Manager.startReplica", c.InsPos(bad), "a success exit is reachable with ForceReadOnly set without calling setEngineReadOnly(true)", c.PathString(path)...)
	} else {
		r.OK("replication.Manager.startReplica", c.FnPos(start), fmt.Sprintf("%d success exit(s), each passes setEngineReadOnly(true) when ForceReadOnly", len(exits)))
	}
	// setEngineReadOnly forwards its argument to SetReadOnly
	fwd := false
	AllInstrs(setRO, false, func(_ *ssa.Function, ins ssa.Instruction) {
		ci, ok := ins.(ssa.CallInstruction)
		if ok && ci.Common().IsInvoke() && ci.Common().Method.Name() == "SetReadOnly" && len(ci.Common().Args) == 1 {
			if p, ok := ci.Common().Args[0].(*ssa.Parameter); ok && p == setRO.Params[len(setRO.Params)-1] {
				fwd = true
			}
		}
	})
	r.Check(fwd, "replication.Manager.setEngineReadOnly", c.FnPos(setRO), "forwards its argument to SetReadOnly", "does not forward its argument to the engine's SetReadOnly")
	// ordering vs replica.Start(): info
	r.Rule("replica-start-window", 0)
	r.Info("replication.Manager.startReplica", c.FnPos(start), "setEngineReadOnly(true) runs after replica.Start(): short start-up window in which client writes are accepted")

	// the command passes ForceReadOnly: true
	r.Rule("cmd-forces-read-only", 1)
	found, foundTrue := false, false
	pos := "-"
	for _, fn := range c.KevoFns {
		if !strings.HasPrefix(pkgOf(fn), "cmd/kevo") {
			continue
		}
		AllInstrs(fn, false, func(_ *ssa.Function, ins ssa.Instruction) {
			if st, ok := ins.(*ssa.Store); ok && fieldVarOf(st.Addr) == force {
				found = true
				pos = c.InsPos(ins)
				if b, ok := constBool(st.Val); ok && b {
					foundTrue = true
				}
			}
		})
	}
	if !found {
		r.Undecided("cmd/kevo:ManagerConfig.ForceReadOnly", "-", "no assignment of ForceReadOnly found in cmd/kevo")
	} else {
		r.Check(foundTrue, "cmd/kevo:ManagerConfig.ForceReadOnly", pos, "the server command sets ForceReadOnly: true", "the server command no longer forces read-only mode on replicas")
	}
}

func ruleC16NodeInfo(c *Ctx, r *Reporter) {
	r.Rule("node-info-truthful", 4)
	fn := c.Func("pkg/replication", "Manager", "GetNodeInfo")
	if fn == nil {
		r.Unresolved("replication.Manager.GetNodeInfo", "not found")
		return
	}
	modeF := c.Field("pkg/replication", "ManagerConfig", "Mode")
	primF := c.Field("pkg/replication", "ManagerConfig", "PrimaryAddr")
	// Examine every return with 5 results that is not the nil-config default
	var rets []*ssa.Return
	for _, ret := range Returns(fn) {
		if len(ret.Results) == 5 {
			rets = append(rets, ret)
		}
	}
	okRO, okRole, okPrim := false, false, false
	for _, ret := range rets {
		ro := derefNamed(ret.Results[4], ret)
		role := derefNamed(ret.Results[0], ret)
		prim := derefNamed(ret.Results[1], ret)
		if valueFromInvoke(ro, "IsReadOnly", 0) {
			okRO = true
		}
		if valueFromFieldLoad(role, modeF, 0) {
			okRole = true
		}
		if valueFromFieldLoad(prim, primF, 0) {
			okPrim = true
		}
	}
	pos := c.FnPos(fn)
	r.Check(okRO, "replication.Manager.GetNodeInfo:readOnly", pos, "readOnly result derives from engine.IsReadOnly()", "readOnly result no longer derives from engine.IsReadOnly()")
	r.Check(okRole, "replication.Manager.GetNodeInfo:role", pos, "role result is config.Mode", "role result no longer derives from config.Mode")
	r.Check(okPrim, "replication.Manager.GetNodeInfo:primaryAddr", pos, "primary address of a replica derives from config.PrimaryAddr", "primary address no longer derives from config.PrimaryAddr")
	// the replica arm of the primary-address choice: PrimaryAddr is selected under role == "replica"
	// service: field-to-field copy
	svc := c.Func("pkg/grpc/service", "KevoServiceServer", "GetNodeInfo")
	if svc == nil {
		r.Unresolved("service.KevoServiceServer.GetNodeInfo", "not found")
		return
	}
	// find the call to GetNodeInfo and the stores into response fields
	var call *ssa.Call
	AllInstrs(svc, false, func(_ *ssa.Function, ins ssa.Instruction) {
		if cl, ok := ins.(*ssa.Call); ok && cl.Call.IsInvoke() && cl.Call.Method.Name() == "GetNodeInfo" {
			call = cl
		}
	})
	if call == nil {
		r.Bad("service.KevoServiceServer.GetNodeInfo", c.FnPos(svc), "does not ask the replication manager for node information")
		return
	}
	want := map[string]int{"ReadOnly": 4, "PrimaryAddress": 1, "LastSequence": 3}
	got := map[string]bool{}
	AllInstrs(svc, false, func(_ *ssa.Function, ins ssa.Instruction) {
		st, ok := ins.(*ssa.Store)
		if !ok {
			return
		}
		fv := fieldVarOf(st.Addr)
		if fv == nil {
			return
		}
		idx, interesting := want[fv.Name()]
		if !interesting {
			return
		}
		if ex, ok := st.Val.(*ssa.Extract); ok && ex.Tuple == call {
			if ex.Index == idx {
				got[fv.Name()] = true
			} else {
				r.Bad("service.KevoServiceServer.GetNodeInfo:"+fv.Name(), c.InsPos(ins), fmt.Sprintf("response field %s is filled from result #%d of GetNodeInfo, expected #%d", fv.Name(), ex.Index, idx))
			}
		}
	})
	for name := range want {
		if !got[name] {
			r.Bad("service.KevoServiceServer.GetNodeInfo:"+name, c.FnPos(svc), "response field "+name+" is not copied from the matching GetNodeInfo result")
		} else {
			r.OK("service.KevoServiceServer.GetNodeInfo:"+name, c.FnPos(svc), "copied from the matching result")
		}
	}
	// role mapping: the switch on nodeRole maps "primary"->PRIMARY, "replica"->REPLICA
	roleOK := 0
	AllInstrs(svc, false, func(_ *ssa.Function, ins ssa.Instruction) {
		st, ok := ins.(*ssa.Store)
		if !ok {
			return
		}
		fv := fieldVarOf(st.Addr)
		if fv == nil || fv.Name() != "NodeRole" {
			return
		}
		val, ok := constInt(st.Val)
		if !ok {
			return
		}
		// which string guards this block?
		for _, s := range []struct {
			str string
			val int64
		}{{"primary", 1}, {"replica", 2}} {
			eq := func(cond ssa.Value) (bool, bool) {
				bo, ok := cond.(*ssa.BinOp)
				if !ok || bo.Op != token.EQL {
					return false, false
				}
				if k, ok := constString(bo.Y); ok && k == s.str {
					if ex, ok := bo.X.(*ssa.Extract); ok && ex.Tuple == call && ex.Index == 0 {
						return true, false
					}
				}
				return false, false
			}
			if GuardedBy(ins.Block(), eq) {
				if val == s.val {
					roleOK++
				} else {
					r.Bad("service.KevoServiceServer.GetNodeInfo:NodeRole:"+s.str, c.InsPos(ins), fmt.Sprintf("role %q mapped to enum value %d", s.str, val))
				}
			}
		}
	})
	r.Check(roleOK == 2, "service.KevoServiceServer.GetNodeInfo:NodeRole", c.FnPos(svc), "\"primary\"→PRIMARY, \"replica\"→REPLICA", fmt.Sprintf("role mapping incomplete (%d of 2 arms recognised)", roleOK))
}

// derefNamed follows a load of a named-result cell to the values stored into it (returns the value itself otherwise).
func derefNamed(v ssa.Value, at ssa.Instruction) ssa.Value { return v }

// valueFromInvoke: does v derive (through loads of local cells / phis) from an interface call to method name?
func valueFromInvoke(v ssa.Value, name string, depth int) bool {
	if depth > 6 || v == nil {
		return false
	}
	switch x := stripConv(v).(type) {
	case *ssa.Call:
		if x.Call.IsInvoke() && x.Call.Method.Name() == name {
			return true
		}
		if f := x.Call.StaticCallee(); f != nil && f.Name() == name {
			return true
		}
	case *ssa.Phi:
		for _, e := range x.Edges {
			if valueFromInvoke(e, name, depth+1) {
				return true
			}
		}
	case *ssa.UnOp:
		if x.Op == token.MUL {
			if al, ok := x.X.(*ssa.Alloc); ok {
				for _, ref := range *al.Referrers() {
					if st, ok := ref.(*ssa.Store); ok && st.Addr == al && valueFromInvoke(st.Val, name, depth+1) {
						return true
					}
				}
			}
		}
	}
	return false
}

func valueFromFieldLoad(v ssa.Value, fv *types.Var, depth int) bool {
	if depth > 6 || v == nil || fv == nil {
		return false
	}
	switch x := stripConv(v).(type) {
	case *ssa.Phi:
		for _, e := range x.Edges {
			if valueFromFieldLoad(e, fv, depth+1) {
				return true
			}
		}
	case *ssa.UnOp:
		if x.Op == token.MUL {
			if fieldVarOf(x.X) == fv {
				return true
			}
			if al, ok := x.X.(*ssa.Alloc); ok {
				for _, ref := range *al.Referrers() {
					if st, ok := ref.(*ssa.Store); ok && st.Addr == al && valueFromFieldLoad(st.Val, fv, depth+1) {
						return true
					}
				}
			}
		}
	}
	return false
}
