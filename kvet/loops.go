package main

import (
	"go/token"

	"golang.org/x/tools/go/ssa"
)

// RangeLoop describes a `for i, x := range slice` loop (go/ssa "rangeindex" lowering).
type RangeLoop struct {
	Header, Body, Done *ssa.BasicBlock
	Index              ssa.Value // the incremented index (idx+1 value used in the body)
	Slice              ssa.Value // the ranged slice/array value, if an element is addressed in the loop
	Elems              []ssa.Value
}

// RangeLoops finds the range-over-slice loops of fn.
func RangeLoops(fn *ssa.Function) []*RangeLoop {
	var out []*RangeLoop
	for _, b := range fn.Blocks {
		if b.Comment != "rangeindex.loop" || len(b.Succs) != 2 {
			continue
		}
		l := &RangeLoop{Header: b, Body: b.Succs[0], Done: b.Succs[1]}
		for _, ins := range b.Instrs {
			if bo, ok := ins.(*ssa.BinOp); ok && bo.Op == token.ADD {
				if _, isPhi := bo.X.(*ssa.Phi); isPhi {
					l.Index = bo
				}
			}
		}
		// elements: IndexAddr with Index == l.Index anywhere in the function (dominated by body)
		for _, bb := range fn.Blocks {
			if !(bb == l.Body || l.Body.Dominates(bb)) {
				continue
			}
			for _, ins := range bb.Instrs {
				if ia, ok := ins.(*ssa.IndexAddr); ok && ia.Index == l.Index {
					l.Slice = ia.X
					for _, ref := range *ia.Referrers() {
						if u, ok := ref.(*ssa.UnOp); ok && u.Op == token.MUL {
							l.Elems = append(l.Elems, u)
						}
					}
				}
				if ix, ok := ins.(*ssa.Index); ok && ix.Index == l.Index {
					l.Slice = ix.X
					l.Elems = append(l.Elems, ix)
				}
			}
		}
		out = append(out, l)
	}
	return out
}

// InLoop: is block b inside the loop (dominated by the body and able to reach the header)?
func (l *RangeLoop) InLoop(b *ssa.BasicBlock) bool {
	return b == l.Body || l.Body.Dominates(b)
}

// IterationMustPass: does every path from the start of the loop body back to the loop header execute a stop
// instruction? Returns the offending path end (the header's first instruction) and path if not.
func (l *RangeLoop) IterationMustPass(stop func(ssa.Instruction) bool, edgeOK func(b *ssa.BasicBlock, succ int) bool) (ssa.Instruction, []*ssa.BasicBlock) {
	first := l.Header.Instrs[0]
	return ReachBlock(l.Body, func(i ssa.Instruction) bool { return i == first }, stop, edgeOK)
}

// GenericLoop: any natural loop given by a header block (a block that dominates one of its predecessors).
type GenericLoop struct {
	Header *ssa.BasicBlock
	Latch  []*ssa.BasicBlock
}

func GenericLoops(fn *ssa.Function) []*GenericLoop {
	var out []*GenericLoop
	for _, b := range fn.Blocks {
		var latches []*ssa.BasicBlock
		for _, p := range b.Preds {
			if b.Dominates(p) {
				latches = append(latches, p)
			}
		}
		if len(latches) > 0 {
			out = append(out, &GenericLoop{Header: b, Latch: latches})
		}
	}
	return out
}

// Contains: block x belongs to the loop (header dominates it and it can reach a latch without leaving through the header).
func (g *GenericLoop) Contains(x *ssa.BasicBlock) bool {
	if !(x == g.Header || g.Header.Dominates(x)) {
		return false
	}
	// reverse reachability from latches without passing the header
	seen := map[*ssa.BasicBlock]bool{}
	var work []*ssa.BasicBlock
	for _, l := range g.Latch {
		work = append(work, l)
		seen[l] = true
	}
	for len(work) > 0 {
		b := work[0]
		work = work[1:]
		if b == x {
			return true
		}
		if b == g.Header {
			continue
		}
		for _, p := range b.Preds {
			if !seen[p] {
				seen[p] = true
				work = append(work, p)
			}
		}
	}
	return x == g.Header
}
