package main

import (
	"golang.org/x/tools/go/callgraph"
	"golang.org/x/tools/go/ssa"
)

type callgraphEdge struct {
	site   ssa.CallInstruction
	callee *ssa.Function
}

func wrapEdges(es []*callgraph.Edge) []*callgraphEdge {
	out := make([]*callgraphEdge, 0, len(es))
	for _, e := range es {
		if e.Site == nil {
			continue
		}
		out = append(out, &callgraphEdge{e.Site, e.Callee.Func})
	}
	return out
}
