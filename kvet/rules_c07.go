package main

import (
	"fmt"
	"sort"
	"strings"

	"golang.org/x/tools/go/ssa"
)

func init() {
	register(&PropertyDef{
		ID: "C07",
		Explanation: "Race freedom over all schedules is not statically decidable; decided is the repository's own locking discipline, instance by instance, over the code reachable from the engine, transaction, compaction-manager and statistics entry points (replication/grpc/client are reported as info): " +
			"(1) guarded-by — every access outside constructor-only code and Close methods to a field of the frozen guard table holds its guard (exclusively for writes, including map/slice content writes); entry lock sets are propagated inter-procedurally (a callee inherits the intersection of its call sites); " +
			"(2) atomic consistency — a field accessed through sync/atomic (or the unsafe atomic pointer idiom) anywhere is accessed that way everywhere; " +
			"(3) no re-entrancy — no method calls, while holding a lock of its receiver, a method of the same receiver that acquires that lock again (sync.Mutex self-deadlock, recursive RLock); " +
			"(4) lock order — the inter-procedural acquired-while-held graph restricted to the in-scope locks is acyclic; " +
			"(5) the database-wide transaction lock is released on every exit of Commit/Rollback after the active swap (a leaked lock blocks every later transaction: shared with C04/C17). " +
			"(6) pairing: in every function of pkg/ a lock acquired on a path is released, or a deferred unlock is registered, before every return that path can reach (hand-over functions listed with their releaser). " +
			"Added after blind round 5: no blocking channel send while a lock is held (the flusher is signalled with select/default). " +
			"Added after blind round 7: a method never returns the map kept in a field of a lock-protected struct (callers add keys to and range over result maps). " +
			"Added after blind round 8: every map operation on a value loaded from a lock-protected map field happens under that field's lock (a map is a reference: a 'snapshot' taken under the lock is the live map). " +
			"Added after blind round 9: fields of the objects every concurrent reader of a table file shares (sstable.Reader, block fetcher, block cache, I/O manager and what they hold) are written on the read path only under an exclusive lock of those objects. " +
			"Added after blind round 10: a plain receive on a signal channel published in a struct field needs a close() of that channel (a send releases one waiter), unless the same call sent on it before (semaphore). " +
			"Added after blind round 10: no TryLock/TryRLock fallback paths in the module (an answer given 'without queueing behind the writer' is an answer from somewhere else than the protected state). " +
			"Added after blind round 11: the shared table file is read positionally. " +
			"Added after blind round 11: the reviewed users of the raw transaction lock are listed here too (a statistics call that takes the isolation lock waits behind the caller's own transaction).",
		NotDecided: "absence of data races in general (needs a happens-before detector over executions), panics from index arithmetic, goroutine leaks, Close concurrent with other calls (out of the property's scope).",
		Rules:      []func(*Ctx, *Reporter){ruleGuardedBy, ruleAtomicConsistency, ruleReentrancyScope, ruleLockOrder, ruleTxRelease, ruleLockReleasedOnEveryExit, ruleNoBlockingChanUnderLock, ruleNoSharedMapHandedOut, ruleGuardedMapsUsedUnderLock, ruleSharedReaderPartsWriteUnderLock, ruleSharedWaitsAreBroadcast, ruleNoTryLockFallbacks, rulePositionalReadsOnSharedFiles, subRules(ruleTxLockWriters, "txlock-who")},
	})
}

// guard table: field -> lock id. Inferred by counting (kvet -dump guards), confirmed by reading, frozen here.
var guardTable = map[string]string{
	"compaction.BaseCompactionStrategy.levels":                      "compaction.DefaultCompactionCoordinator.compactingMu",
	"compaction.DefaultCompactionCoordinator.running":               "compaction.DefaultCompactionCoordinator.compactingMu",
	"compaction.DefaultCompactionCoordinator.lastCompactionOutputs": "compaction.DefaultCompactionCoordinator.resultsMu",
	"compaction.DefaultFileTracker.obsoleteFiles":                   "compaction.DefaultFileTracker.filesMu",
	"compaction.DefaultFileTracker.pendingFiles":                    "compaction.DefaultFileTracker.filesMu",
	"compaction.TombstoneTracker.deletions":                         "compaction.TombstoneTracker.mu",
	"compaction.TombstoneTracker.preserveForever":                   "compaction.TombstoneTracker.mu",
	"memtable.MemTablePool.active":                                  "memtable.MemTablePool.mu",
	"memtable.MemTablePool.immutables":                              "memtable.MemTablePool.mu",
	"sstable.BlockCache.blocks":                                     "sstable.BlockCache.mu",
	"sstable.IOManager.file":                                        "sstable.IOManager.mu",
	"stats.AtomicCollector.counts":                                  "stats.AtomicCollector.countsMu",
	"stats.AtomicCollector.errors":                                  "stats.AtomicCollector.errorsMu",
	"stats.AtomicCollector.lastOpTime":                              "stats.AtomicCollector.lastOpTimeMu",
	"stats.AtomicCollector.latencies":                               "stats.AtomicCollector.latenciesMu",
	"storage.Manager.sstables":                                      "storage.Manager.mu",
	"storage.Manager.immutableMTs":                                  "storage.Manager.mu",
	"storage.Manager.lastSeqNum":                                    "storage.Manager.mu",
	"transaction.Buffer.operations":                                 "transaction.Buffer.mu",
	"transaction.RegistryImpl.transactions":                         "transaction.RegistryImpl.mu",
	"transaction.RegistryImpl.connectionTxs":                        "transaction.RegistryImpl.mu",
	"transaction.RegistryImpl.nextID":                               "transaction.RegistryImpl.mu",
	"transaction.TransactionImpl.lastActiveTime":                    "transaction.TransactionImpl.mu",
	"wal.WAL.nextSequence":                                          "wal.WAL.mu",
	"wal.WAL.writer":                                                "wal.WAL.mu",
	"wal.WAL.file":                                                  "wal.WAL.mu",
	"wal.WAL.bytesWritten":                                          "wal.WAL.mu",
	"wal.WAL.batchByteSize":                                         "wal.WAL.mu",
	"wal.WAL.overflowWarning":                                       "wal.WAL.mu",
	"wal.WAL.observers":                                             "wal.WAL.observersMu",
	"bloomfilter.BloomFilter.bits":                                  "bloomfilter.BloomFilter.mu",
	"bloomfilter.BloomFilter.insertions":                            "bloomfilter.BloomFilter.mu",
	// replication: reported as info (outside the property's quantifier)
	"replication.Primary.sessions":                "replication.Primary.mu",
	"replication.Primary.lastSyncedSeq":           "replication.Primary.mu",
	"replication.WALBatchApplier.maxAppliedSeq":   "replication.WALBatchApplier.mu",
	"replication.WALBatchApplier.expectedNextSeq": "replication.WALBatchApplier.mu",
	"replication.WALBatchApplier.lastAckSeq":      "replication.WALBatchApplier.mu",
	"replication.Replica.lastAppliedSeq":          "replication.Replica.mu",
	"replication.ReplicaSession.Connected":        "replication.ReplicaSession.mu",
	"replication.ReplicaSession.Active":           "replication.ReplicaSession.mu",
	"replication.ReplicaSession.LastActivity":     "replication.ReplicaSession.mu",
	"replication.ReplicaSession.LastAckSequence":  "replication.ReplicaSession.mu",
}

// guardExempt: named exceptions, one reason each (function → reason); key "<field>@<function>".
var guardExempt = map[string]string{
	"storage.Manager.sstables@storage.Manager.Close": "Close concurrent with other calls is out of the property's scope",
	"wal.WAL.file@wal.WAL.Close":                     "Close holds WAL.mu (checked) — listed for completeness",
}

func inC07Scope(fn *ssa.Function) bool {
	p := pkgOf(fn)
	for _, pre := range []string{"pkg/engine", "pkg/memtable", "pkg/sstable", "pkg/wal", "pkg/compaction", "pkg/transaction", "pkg/stats", "pkg/config", "pkg/common/iterator", "pkg/bloom_filter"} {
		if p == pre || strings.HasPrefix(p, pre+"/") {
			return true
		}
	}
	return false
}

func isCloseMethod(fn *ssa.Function) bool {
	n := topParent(fn).Name()
	return n == "Close" || n == "Stop" && false
}

func ruleGuardedBy(c *Ctx, r *Reporter) {
	r.Rule("guarded-by", 25)
	acc := c.AllFieldAccesses()
	ctor := c.CtorOnly()
	var keys []string
	for k := range guardTable {
		keys = append(keys, k)
	}
	sort.Strings(keys)
	for _, field := range keys {
		guard := guardTable[field]
		as := acc[field]
		isRepl := strings.HasPrefix(field, "replication.")
		n, bad := 0, 0
		for _, a := range as {
			top := topParent(a.Fn)
			if ctor[top] {
				continue
			}
			if _, ex := guardExempt[field+"@"+FnName(top)]; ex {
				continue
			}
			if isCloseMethod(a.Fn) {
				continue
			}
			n++
			mode := "R"
			if a.Write {
				mode = "W"
			}
			if a.Held.Holds(guard, mode) {
				continue
			}
			bad++
			msg := fmt.Sprintf("%s of %s without %s held%s (held: %s)", map[bool]string{true: "write", false: "read"}[a.Write], field, guard, map[bool]string{true: " exclusively", false: ""}[a.Write], a.Held.String())
			if isRepl {
				r.Info(field+"@"+FnName(a.Fn), c.InsPos(a.Ins), msg+" — replication code is outside C07's quantifier")
			} else {
				r.Bad(field+"@"+FnName(a.Fn), c.InsPos(a.Ins), msg+": concurrent API calls can race on it (data race / 'concurrent map writes')")
			}
		}
		if isRepl {
			continue
		}
		if n == 0 {
			r.Undecided(field, "-", "no access to a guarded field found (field renamed or removed?)")
		} else if bad == 0 {
			r.OK(field, "-", fmt.Sprintf("%d access(es) outside constructors/Close, all holding %s", n, guard))
		}
	}
}

func ruleAtomicConsistency(c *Ctx, r *Reporter) {
	r.Rule("atomic-consistency", 3)
	// fields whose address is passed to sync/atomic functions or cast through unsafe somewhere
	type use struct {
		atomic []ssa.Instruction
		plain  []ssa.Instruction
		fns    map[ssa.Instruction]*ssa.Function
	}
	uses := map[string]*use{}
	ctor := c.CtorOnly()
	for _, fn := range c.KevoFns {
		AllInstrs(fn, false, func(_ *ssa.Function, ins ssa.Instruction) {
			fa, ok := ins.(*ssa.FieldAddr)
			if !ok {
				return
			}
			fv := fieldVarOf(fa)
			if fv == nil || fv.Pkg() == nil || !strings.HasPrefix(fv.Pkg().Path(), modPath) || isSyncType(fv.Type()) {
				return
			}
			if _, lit := fa.X.(*ssa.Alloc); lit {
				return
			}
			key := fieldKey(fv, ownerOfFieldAddr(fa))
			rd, wr, at := classifyAccess(fa)
			u := uses[key]
			if u == nil {
				u = &use{fns: map[ssa.Instruction]*ssa.Function{}}
				uses[key] = u
			}
			u.fns[ins] = fn
			if at {
				u.atomic = append(u.atomic, ins)
			}
			if rd || wr {
				u.plain = append(u.plain, ins)
			}
		})
	}
	var keys []string
	for k, u := range uses {
		if len(u.atomic) > 0 {
			keys = append(keys, k)
		}
	}
	sort.Strings(keys)
	for _, k := range keys {
		u := uses[k]
		bad := 0
		for _, p := range u.plain {
			fn := u.fns[p]
			if ctor[topParent(fn)] {
				continue
			}
			bad++
			if inC07Scope(fn) {
				r.Bad(k+"@"+FnName(fn), c.InsPos(p), "plain (non-atomic) access to a field that is accessed atomically elsewhere: the two accesses race")
			} else {
				r.Info(k+"@"+FnName(fn), c.InsPos(p), "plain access to an atomically accessed field (outside C07's scope)")
			}
		}
		if bad == 0 {
			r.OK(k, "-", fmt.Sprintf("%d atomic access(es), no plain access outside constructor-only code", len(u.atomic)))
		}
	}
}

func ruleReentrancyScope(c *Ctx, r *Reporter) {
	r.Rule("no-reentrancy", 30)
	checkNoReentrancy(c, r, inC07Scope)
}

// ---------------------------------------------------------------- lock order

type lockEdge struct {
	from, to string
	pos      string
	via      string
}

// acquiresAll: locks fn may acquire, transitively through non-go calls (memoised, cycle-safe).
func (c *Ctx) acquiresAll(fn *ssa.Function, memo map[*ssa.Function]map[string]string, stack map[*ssa.Function]bool) map[string]string {
	if m, ok := memo[fn]; ok {
		return m
	}
	if stack[fn] {
		return nil
	}
	stack[fn] = true
	out := map[string]string{}
	AllInstrs(fn, false, func(_ *ssa.Function, ins ssa.Instruction) {
		if isGo(ins) {
			return
		}
		if op, ok := LockOpOf(ins); ok && op.Acquire {
			out[op.ID] = FnName(fn)
			return
		}
		ci, ok := ins.(ssa.CallInstruction)
		if !ok {
			return
		}
		for _, cal := range c.Callees(ci) {
			if !c.InKevo(cal) {
				continue
			}
			for id, via := range c.acquiresAll(cal, memo, stack) {
				if _, has := out[id]; !has {
					out[id] = FnName(cal) + "→" + via
				}
			}
		}
	})
	delete(stack, fn)
	memo[fn] = out
	return out
}

// LockGraph computes the acquired-while-held edges of the whole module.
func (c *Ctx) LockGraph() []lockEdge {
	li := c.Locks()
	memo := map[*ssa.Function]map[string]string{}
	seen := map[string]bool{}
	var edges []lockEdge
	add := func(from, to, pos, via string) {
		if from == to || strings.HasPrefix(from, "local.") || strings.HasPrefix(to, "local.") || strings.HasPrefix(from, "?") || strings.HasPrefix(to, "?") {
			return
		}
		site := via
		if i := strings.Index(site, "→"); i >= 0 {
			site = site[:i]
		}
		k := from + "→" + to + "@" + site
		if seen[k] {
			return
		}
		seen[k] = true
		edges = append(edges, lockEdge{from, to, pos, via})
	}
	for _, fn := range c.KevoFns {
		AllInstrs(fn, false, func(_ *ssa.Function, ins ssa.Instruction) {
			if isGo(ins) {
				return
			}
			held := li.HeldAt(ins)
			if len(held) == 0 {
				return
			}
			if op, ok := LockOpOf(ins); ok && op.Acquire {
				entry := li.Entry(fn)
				for h := range held {
					if _, inherited := entry[h]; inherited && entry != nil {
						continue // reported at the call site of the function that acquired h
					}
					add(h, op.ID, c.InsPos(ins), FnName(fn))
				}
				return
			}
			ci, ok := ins.(ssa.CallInstruction)
			if !ok || isDefer(ins) {
				return
			}
			entry := li.Entry(fn)
			for _, cal := range c.Callees(ci) {
				if !c.InKevo(cal) {
					continue
				}
				for id, via := range c.acquiresAll(cal, memo, map[*ssa.Function]bool{}) {
					for h := range held {
						if _, inherited := entry[h]; inherited && entry != nil {
							continue // the caller that acquired h reports this edge at its own call site
						}
						add(h, id, c.InsPos(ins), FnName(fn)+"→"+FnName(cal)+"→"+via)
					}
				}
			}
		})
	}
	sort.Slice(edges, func(i, j int) bool {
		return edges[i].from+edges[i].to+edges[i].via < edges[j].from+edges[j].to+edges[j].via
	})
	return edges
}

// site: the function in which the lock 'from' is held when 'to' is acquired.
func (e lockEdge) site() string {
	if i := strings.Index(e.via, "→"); i >= 0 {
		return e.via[:i]
	}
	return e.via
}

// dedupeLockPairs keeps one edge per (from,to) for cycle search.
func dedupeLockPairs(edges []lockEdge) []lockEdge {
	seen := map[string]bool{}
	var out []lockEdge
	for _, e := range edges {
		k := e.from + "→" + e.to
		if !seen[k] {
			seen[k] = true
			out = append(out, e)
		}
	}
	return out
}

// cyclicPairs returns the set of "from→to" pairs that lie on some cycle.
func cyclicPairs(edges []lockEdge) map[string]bool {
	out := map[string]bool{}
	for _, cyc := range lockCycles(dedupeLockPairs(edges)) {
		for _, e := range cyc {
			out[e.from+"→"+e.to] = true
		}
	}
	return out
}

// lockCycles finds elementary cycles (as sorted canonical strings) in the edge set.
func lockCycles(edges []lockEdge) [][]lockEdge {
	adj := map[string][]lockEdge{}
	for _, e := range edges {
		adj[e.from] = append(adj[e.from], e)
	}
	var nodes []string
	for n := range adj {
		nodes = append(nodes, n)
	}
	sort.Strings(nodes)
	seenCycle := map[string]bool{}
	var out [][]lockEdge
	var dfs func(start, cur string, path []lockEdge, onPath map[string]bool)
	dfs = func(start, cur string, path []lockEdge, onPath map[string]bool) {
		if len(path) > 6 {
			return
		}
		for _, e := range adj[cur] {
			if e.to == start {
				cyc := append(append([]lockEdge{}, path...), e)
				var names []string
				for _, x := range cyc {
					names = append(names, x.from)
				}
				sort.Strings(names)
				k := strings.Join(names, "|")
				if !seenCycle[k] {
					seenCycle[k] = true
					out = append(out, cyc)
				}
				continue
			}
			if onPath[e.to] || e.to < start {
				continue
			}
			onPath[e.to] = true
			dfs(start, e.to, append(path, e), onPath)
			delete(onPath, e.to)
		}
	}
	for _, n := range nodes {
		dfs(n, n, nil, map[string]bool{n: true})
	}
	return out
}

func cycleKey(cyc []lockEdge) string {
	var names []string
	for _, e := range cyc {
		names = append(names, e.from)
	}
	sort.Strings(names)
	return strings.Join(names, " ⇄ ")
}

func ruleLockOrder(c *Ctx, r *Reporter) {
	r.Rule("lock-order", 1)
	edges := c.LockGraph()
	cycles := lockCycles(dedupeLockPairs(edges))
	inScopeLock := func(id string) bool {
		return !strings.HasPrefix(id, "replication.") && !strings.HasPrefix(id, "client.") && !strings.HasPrefix(id, "service.")
	}
	n := 0
	for _, cyc := range cycles {
		all := true
		for _, e := range cyc {
			if !inScopeLock(e.from) {
				all = false
			}
		}
		var path []string
		for _, e := range cyc {
			path = append(path, fmt.Sprintf("%s → %s at %s via %s", e.from, e.to, e.pos, e.via))
		}
		if all {
			n++
			r.Bad("cycle:"+cycleKey(cyc), cyc[0].pos, "lock-order cycle: two goroutines taking these locks in the two orders deadlock", path...)
		} else {
			r.Info("cycle:"+cycleKey(cyc), cyc[0].pos, "lock-order cycle through replication locks (reported under C15): "+strings.Join(path, " ; "))
		}
	}
	var es []string
	for _, e := range edges {
		if inScopeLock(e.from) && inScopeLock(e.to) {
			es = append(es, e.from+"→"+e.to)
		}
	}
	r.Notes = append(r.Notes, "C07 acquired-while-held edges (in scope): "+strings.Join(es, ", "))
	if n == 0 {
		r.OK("acyclic", "-", fmt.Sprintf("%d acquired-while-held edges among in-scope locks, no cycle", len(es)))
	}
}
