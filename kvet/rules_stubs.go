package main

func ruleSstFinish(c *Ctx, r *Reporter)         {}
func ruleDestructiveOps(c *Ctx, r *Reporter)    {}
func ruleStFlushPublish(c *Ctx, r *Reporter)    {}
func ruleTxBufferIsolation(c *Ctx, r *Reporter) {}
func ruleTxBufferCapture(c *Ctx, r *Reporter)   {}
func ruleTxRollbackClears(c *Ctx, r *Reporter)  {}
func ruleStWalPointer(c *Ctx, r *Reporter)      {}
