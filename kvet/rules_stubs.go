package main

func ruleFlushRules(c *Ctx, r *Reporter)      {}
func ruleEmptyNotDeleted(c *Ctx, r *Reporter) {}
func ruleTombstoneMarker(c *Ctx, r *Reporter) {}
func ruleRecencyAtLoad(c *Ctx, r *Reporter)   {}
