#!/bin/bash
# usage: tools/try_patch.sh <patch.diff> [props]   — applies the patch to /repo, runs kvet (no evidence), reverts.
set -u
P="$1"; PROPS="${2:-all}"
cd /repo || exit 2
if ! git diff --quiet; then echo "/repo is dirty" >&2; exit 2; fi
git apply "$P" || { echo "patch does not apply" >&2; exit 2; }
/tmp/kvet -repo /repo -verif /verif -property "$PROPS" -no-evidence 2>&1 | grep -v "^    " | grep "VIOLATED\|UNDECIDED\|UNRESOLVED\|LOAD" | cut -c1-260
git checkout -- . 
