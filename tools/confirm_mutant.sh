#!/bin/bash
# usage: confirm_mutant.sh <ID> <X>   — confirms /tmp/mut/out/<ID>/<X>: demo passes without patch, fails with it, suite passes with it.
ID="$1"; X="$2"
SRC=${SRCROOT:-/tmp/mut/out}/$ID/$X
WT=/tmp/confirm/wt_${ID}_$X
OUT=/tmp/confirm/results/${ID}_$X.txt
export GOFLAGS=-mod=mod GOPROXY=off
rm -rf "$WT"; git -C /repo worktree prune; git -C /repo worktree add --detach "$WT" HEAD -q || exit 2
cd "$WT" || exit 2
DIR=$(grep -m1 -io 'pkg/[a-z_/]*[a-z_]\|cmd/[a-z_/-]*' "$SRC/where.txt" | head -1 | sed 's#/demo_test.go##; s#/$##')
[ -d "$DIR" ] || DIR=$(dirname "$DIR")
CMD=$(grep -m1 -o 'go test .*' "$SRC/where.txt" | sed 's/[[:space:]]*$//')
{
echo "mutant $ID/$X dir=$DIR cmd=$CMD"
DEMO=$(ls "$SRC" | grep -m1 '_test.go$')
cp "$SRC/$DEMO" "$DIR/zz_seeded_demo_test.go"
if timeout 900 bash -o pipefail -c "$CMD" > /tmp/confirm/${ID}_${X}_clean.log 2>&1; then echo "DEMO_WITHOUT_PATCH=pass"; else echo "DEMO_WITHOUT_PATCH=FAIL"; fi
if git apply "$SRC/patch.diff"; then echo "PATCH_APPLIES=yes"; else echo "PATCH_APPLIES=NO"; fi
if timeout 900 bash -o pipefail -c "$CMD" > /tmp/confirm/${ID}_${X}_patched.log 2>&1; then echo "DEMO_WITH_PATCH=pass(BAD)"; else echo "DEMO_WITH_PATCH=fail(expected)"; fi
rm -f "$DIR/zz_seeded_demo_test.go"
if go build ./... > /tmp/confirm/${ID}_${X}_build.log 2>&1; then echo "BUILD=ok"; else echo "BUILD=FAIL"; fi
if go test -vet=off -count=1 $(go list ./... | grep -v /pkg/replication$) > /tmp/confirm/${ID}_${X}_suite.log 2>&1; then echo "SUITE_NONREPL=pass"; else echo "SUITE_NONREPL=FAIL"; fi
if go test -vet=off -count=1 -timeout 10m ./pkg/replication -run "$(cat /tmp/mut/replication_stable_regex.txt)" > /tmp/confirm/${ID}_${X}_repl.log 2>&1; then echo "SUITE_REPL=pass"; else echo "SUITE_REPL=FAIL"; fi
git diff --stat | tail -1
} > "$OUT" 2>&1
cd /; git -C /repo worktree remove --force "$WT"
cat "$OUT"
