#!/usr/bin/env python3
"""Regenerates /verif/MANIFEST.json from the table below (one entry per claimed property)."""
import json, os, subprocess, sys

HERE = os.path.dirname(os.path.dirname(os.path.abspath(__file__)))

LEVEL_TEXT = ("Structural necessary conditions of the property, decided exactly for the current tree by repo-specific static rules "
              "over the type-checked program, its SSA form and the VTA call graph. A pass means every obligation of every rule was discharged "
              "(or matches an open known finding); it does not decide the behavioural property as a whole. ")
NOTE = ("Trusted base: go/types, go/ssa, VTA call graph (x/tools v0.29.0); closed-world call sites; lock identity by (type, field); "
        "named anchors fail the check when they stop resolving. Not decided: ")

CLAIMS = {}

def claim(pid, technique, decided, not_decided, ref):
    CLAIMS[pid] = dict(technique=technique, decided=decided, not_decided=not_decided, ref=ref)

claim("C16", "static: exhaustive mutator classification over the call graph + guard dominance on SSA + who-may-call tables",
      "every exported EngineFacade / interfaces.Engine method is classified by call-graph reachability; in each non-bypass mutator the read-only test dominates every call that can reach a storage mutation; bypass methods, flag writers and storage mutators are called only from the frozen caller tables; the applier's read-only arm uses the bypass first; startReplica sets the flag on every success path; node info is copied field to field.",
      "that data stays byte-identical, interleavings with replication apply, the start-up window before SetReadOnly(true).",
      "DESIGN.md §2 C16")

claim("C20", "static: validate-before-write / validate-after-load dominance on SSA, constraint table extracted from the validator's branch conditions, JSON field table from types, no-silent-default path rule",
      "every file-system write in SaveManifest/Manifest.Save is dominated by a successful validation and goes temp-file-then-rename; every configuration-returning exit of the loaders is dominated by a checked json.Unmarshal and a successful validation; NewEngineFacade creates defaults only on the ErrManifestNotFound edge, which the loader returns only under os.IsNotExist; the rejection atoms extracted from the validator cover the documented constraint table; every Config field round-trips by type; SaveManifest does not re-lock its mutex.",
      "value-level behaviour at the boundaries, float formatting, crash during save.",
      "DESIGN.md §2 C20")

claim("C17", "static: CAS/flag guard dominance, must-pass-through release on every exit, who-may-unlock table, finish-before-removal path rule, channel typestate for the begin hand-off",
      "Commit/Rollback effects are dominated by the successful swap of active and the failing arm returns the closed error; operations test active first; after the swap every exit passes the release helper of the transaction's mode; helpers are CAS-guarded and the only unlockers of txLock; every removal from the registry (map delete, Remove call sites) is preceded on all paths by Commit/Rollback; the begin hand-off is an unbuffered rendezvous whose timeout arm rolls back; the sweeper has both staleness criteria.",
      "timing of the sweeper and of timeouts, liveness for all call sequences.",
      "DESIGN.md §2 C17")

claim("C04", "static: strict-2PL bracket decided structurally (acquire-at-begin, release-at-end must-pass rules, apply-before-release never-after rule, buffer-first lookup/merge order)",
      "BeginTransaction acquires txLock on every success exit in the mode that matches the stored transaction mode (ReadOnly ⇔ readOnly argument ⇔ RLock) and sets the matching flag after acquiring; Commit/Rollback release it on every exit after the active swap through CAS-guarded helpers that are the only unlockers; ApplyBatch is never reachable after a release and occurs exactly once per Commit; Get consults the buffer first and storage only on a miss; the buffer iterator is source 0 of every transactional merge and is bounded like the storage range.",
      "equivalence of all interleavings to a serial order (needs recorded histories); writes issued outside transactions are excluded by the property itself.",
      "DESIGN.md §2 C04")

claim("C02", "static: write-ahead and sync-before-ack as dominance / must-pass-through rules on SSA (error-polarity aware), flush→fsync→rename ordering, who-may-write and destructive-operation tables, recovery publication loop rule",
      "every memtable insert is dominated by a successful log append; every success exit of wal.Append* after a record write passes maybeSync()==nil; SyncImmediate reaches syncLocked; Flush precedes Sync with both errors returned and status changes only after the sync; the buffered writer is never replaced unflushed; rotation closes the old log after the swap; SSTable Finish writes, fsyncs, then renames a temp file; loaders open only *.sst; destructive file operations are exactly the classified sites; recovery publishes every recovered memtable and restores the counter.",
      "the state at arbitrary stop instants, torn writes, directory fsync, repeated crash/recover cycles (need fault injection).",
      "DESIGN.md §2 C02")

claim("C03", "static: call-graph isolation of the buffer, one-ApplyBatch path rule, lockset analysis of the apply section, size-formula agreement (linear expressions extracted from SSA) between batch pre-validation / buffer provision and writeRecord, value-flow capture rule",
      "only Commit reaches storage mutation; exactly one ApplyBatch per Commit, never after the lock release; ApplyBatch appends and inserts under one exclusive hold of storage.Manager.mu with no exit in between; AppendBatch has no flush between a batch's records, one sequence number per batch, provisions the buffer with exactly the bytes writeRecord writes and pre-validates with writeRecord's own size formula before the first byte; Buffer.Put/Delete store fresh copies under string(key); Rollback clears before releasing.",
      "atomicity across a crash (the log has no batch frame: remark only), concurrent-reader interleavings.",
      "DESIGN.md §2 C03")

claim("C06", "static (narrow): lockset analysis of the single-writer section, error-polarity path rules for 'error means no effect / success means once', stamp provenance, atomic WAL-pointer discipline — linearizability itself is NOT decided",
      "the log append, memtable insert and lastSeqNum update run under one exclusive hold of storage.Manager.mu (closures analysed in the caller's lock context) and readers hold it shared; no exit between a successful append and the insert and every feasible exit after the insert returns nil; the retry closure re-runs only on ErrWALRotating, which Append* returns before any effect; the memtable stamp is the number the log returned; Manager.wal is read through the atomic accessor on the write path.",
      "linearizability of histories, real-time order, stale reads across rotation, all schedules — none of this is decided; only the listed structural preconditions are.",
      "DESIGN.md §2 C06")

claim("C08", "static: every store to the sequence counter checked for monotonicity (old+k or comparison-guarded), provenance of returned/written/stamped numbers, hand-over and recovery path rules",
      "all stores to WAL.nextSequence are monotone; Append/AppendBatch return the number read before the write, write the record with it and advance past it; a freshly constructed WAL receives the old counter before it is published; recovery restores max+1 on every success path and the maximum is a running maximum; memtable stamps and lastSeqNum are the log-assigned number; lastSeqNum has no other writer.",
      "the actual numbers after arbitrary histories; interactions of WAL retention with sequence numbers stored in SSTables.",
      "DESIGN.md §2 C08")

claim("C01", "static: layer-order direction/dominance rules, tombstone short-circuit guards, P-ORD decision tables (order-abstract interpretation of comparator, Find selection, Insert position, flush dedup, recency comparator), stamp provenance, nil-collapse value-flow, marker-constant agreement",
      "precedence slices grow by append only and every point lookup consults the newer layer first, walks the slice from the last element down and never falls through after a hit; deletion markers short-circuit; SSTable values are returned only on the exact-key not-a-tombstone edge; the comparator / Find / Insert / flush-dedup decision tables equal the specification over all orderings; stamps are log-assigned; no nil-collapsing copy reaches a 'nil means tombstone' sink and value entries are never nil; flush writes every entry with its own fields; writer and reader share the tombstone marker; the SSTable list is sorted deeper-level-first, older-first at load.",
      "byte equality for all programs; seek landing inside SSTable blocks (declared under C11, not decided); configuration effects.",
      "DESIGN.md §2 C01")

claim("C05", "static: source-order direction rules and P-ORD decision tables of the k-way merge (findNextUniqueKey/Seek/SeekToLast), bounds, filter and scan-consumer loops",
      "source lists are newest first end to end; the merge's selection tables (smallest/greatest key, earlier source wins ties, exhausted and below-target sources skipped, advance exactly while key <= last emitted) equal the specification; checkBounds ⇔ start <= key < end for all nil/non-nil bounds, Seek clamps and refuses, all accessors go through the check; filters expose only passing keys; Scan/TxScan send only non-tombstones, stop at the limit before emitting and count only emitted entries; memtable iterators skip snapshot-invisible nodes; transaction scans overlay the bounded buffer as source 0.",
      "exactness of the key set for all data sets; seek landing inside SSTable blocks; scans concurrent with writers beyond the snapshot rule.",
      "DESIGN.md §2 C05")

claim("C18", "static: P-ORD decision tables for comparator / Find / Insert / visibility, publication-order and who-may-write rules, lockset rule for the single writer",
      "compareWithEntry's table is (key asc, sequence desc) over all 9 orderings; Find replaces its result iff the candidate's sequence is strictly higher and stops at the first different key; descent and insert loops advance exactly while next sorts before the target; the new node's own link is set before the predecessor is redirected, bottom-up, through atomic pointers; node/entry fields are written only in constructors, which copy; Insert runs only under MemTable.mu held exclusively and behind the not-immutable test; immutable is only ever stored true; isVisible ⇔ snapshot == 0 ∨ seq <= snapshot and Next/Seek/SeekToFirst skip invisible nodes.",
      "what concurrent readers observe under all interleavings; memory-model reasoning beyond 'atomic links, initialised before publication'.",
      "DESIGN.md §2 C18")

claim("C07", "static: inter-procedural must-held lockset analysis with a frozen guarded-by table (inferred by counting, confirmed by reading), atomic-consistency table, receiver-relative re-entrancy check, acquired-while-held lock graph (cycle detection)",
      "every access to a field of the guard table outside constructor-only code and Close holds its guard (exclusively for writes, content writes of maps/slices included); fields accessed atomically are accessed atomically everywhere; no method re-acquires a lock of its own receiver through a call on the same receiver; the lock graph over in-scope locks is acyclic. Replication code is reported as info only.",
      "data races in general (needs a happens-before detector over executions), panics, goroutine leaks, Close concurrent with other calls.",
      "DESIGN.md §2 C07")

claim("C15", "static: lockset + call-graph reachability of blocking gRPC stream operations under the write-path locks; lock-order cycles closed by goroutines off the write path (per-site obligations); structural dead-session rules",
      "no blocking stream operation is reachable while WAL.mu/Manager.mu is held; no goroutine off the write path takes write-path locks in an order that closes a cycle with the write path's order; observer callbacks return nothing; the heartbeat's timeout arm and failed sends mark sessions disconnected and every marked session is unregistered; GetReplicaInfo reports only connected sessions; session ids are fresh per stream; no blocking send under a session lock in the monitor loop. The pinned tree violates the first, second and last rule at 9 listed sites (open known findings: repair needs a per-session queue).",
      "latencies, time bounds, 'eventually', TCP-level stalls.",
      "DESIGN.md §2 C15")

claim("C09", "static: writer/reader layout agreement (offset-addressed codec extraction with symbolic linear offsets), fragmentation loop tables, narrowing/CRC dominance rules, file-order direction rules",
      "record header and entry payload field lists (offset, width, byte order, guard) are equal between writer and reader; the first fragment is the payload prefix, middle fragments are cut only while more than one record remains, chunking tiles the remainder, FIRST/MIDDLE/LAST tags are shared and the reader reassembles in order with the same parser; the 16-bit length is bounded; every success exit of readRecord is behind the CRC match; files are sorted and visited ascending with the current file last; the sequence filter is >=; the buffered writer is never replaced unflushed.",
      "equality of replayed and appended sequences for all inputs; non-monotone sequence numbers.",
      "DESIGN.md §2 C09")

claim("C10", "static: exhaustive error-class analysis (every error value leaving the reader classified under the predicates the replay loops really use, message texts evaluated as constants), destructive-operation table, tail-validation and bounds-check dominance rules",
      "no error that log damage can produce is classified fatal by ReplayWALFile/getEntriesFromFile; ReuseWAL opens for append only behind a clean entry-boundary scan and io.EOF is never synthesised; CRC on every success exit; variable-length slices are bounds-checked; a new first fragment discards pending fragments. One open known finding: recoverFromWAL's backup arm still moves all log files aside when recovery fails for another reason.",
      "the set of entries delivered per truncation offset / corruption position (enumeration); resynchronisation after the 32 KB skip.",
      "DESIGN.md §2 C10")

claim("C11", "static: codec agreement (offset-addressed extraction for footer/index/bloom header; P-ORD trace comparison of the block writer's and reader's field sequences and cursor advance), checksum dominance, bloom-key field timeline, sibling agreement, no-narrow-arithmetic lint",
      "footer, index entry, block entry (4 paths), block trailer and bloom file header layouts agree between writer and reader; checksums and magic dominate every success exit; each block's filter is keyed by its own offset and keys join the filter before a flush; Add/Contains and setBit/testBit agree; inputs must be strictly ascending; index entries carry the block's first key after a complete write; no 8/16-bit arithmetic in the codecs.",
      "DECLARED UNDECIDED: forward iteration yielding every entry exactly once and Seek landing on the first key >= target (value-level cursor arithmetic; the pinned tree gets both wrong; no rule here decides them).",
      "DESIGN.md §2 C11")

claim("C12", "static: P-ORD decision tables (level-order comparator, per-entry compaction decision, tombstone filter, Overlaps, builder order, merge policy), inputs-outlive-outputs dominance rules, retention guards",
      "sources are merged newest first (level ascending; within a level newer timestamp first, sequence only as tie-break; earlier source wins ties); duplicates are skipped, values always written, tombstones written iff the filter keeps them; every drop answer of the filter carries the level condition; inputs are retired only after a successful CompactFiles and outputs recorded only after Finish; Overlaps is the closed-interval test; the SSTable list is recency-sorted at load; WAL retention spares the current file and deletes by sequence only when MaxSeq < MinSequenceKeep.",
      "equality of merged views for all workloads; which selections a workload triggers; log retirement while data is only in memory.",
      "DESIGN.md §2 C12")

claim("C13", "static: path rules and an order-abstract decision table over WALBatchApplier.ApplyEntries (SSA), who-may-write rules for the cursor fields, value-flow rule for the reported sequence, offset-addressed codec agreement (manual shift loops) with field binding, flag/value-flow rule for Compressed",
      "the apply callback runs only behind first == expectedNextSeq and, inside a batch, only for previous+1 (table over previous-2..previous+3); the cursor is written only after the completed loop, to last / last+1, never for an empty batch or on a failing exit; the cursor fields have no writer outside constructor/ApplyEntries/AcknowledgeUpTo/Reset and Reset is never called with a foreign position; acknowledged positions only move forward on both sides; the reported applied sequence is assigned only from ApplyEntries' result or GetMaxApplied(); SerializeWALEntry and DeserializeWALEntry agree field by field and bind the same entry fields; no response claims Compressed for payloads that were not compressed; the read-only arm applies through PutInternal/DeleteInternal.",
      "all delivery schedules (reordering, duplication, overlap of push and poll, reconnects); equality of replica state with a primary prefix.",
      "DESIGN.md §2 C13")

claim("C14", "static: dominance rule on log-object publications, holder enumeration over struct fields, value-identity rules between record arguments and observer entries, sibling contract between the batch producer's successor relation and the consumer's decision table (P-ORD), unit (dimension) analysis of sequence positions, pass-through rules for the catch-up reader, must-pass rule in the poll loop",
      "structural preconditions of convergence: a replaced log object receives the old one's observers before publication and no outside component stays bound to the log object of its construction (both violated on this tree: recorded findings); observers are told exactly the type/sequence/key/value of the record written, only behind the write; the successor relation the log emits inside a batch is one the replica's apply loop accepts (violated: recorded finding); 'next expected' and 'last acknowledged' positions are never assigned to each other without ±1; the catch-up reader serves the requested position and the senders read from the position they were asked for; the poll re-sends whenever the log is ahead of the acknowledged position.",
      "convergence itself, time bounds, join/restart timing, the replica state machine's liveness (its handlers request transitions the tracker refuses — observed end to end, costs a reconnect per batch but does not prevent convergence), retention racing with a slow replica.",
      "DESIGN.md §2 C14")

claim("C19", "static: delegation table over the RPC set enumerated from the generated server interface (resolved invoke targets and argument identity), pruned-edge reachability for limit tests, straight-line rejection paths scanned for mutating operations, captured-variable identity for BatchWrite's deferred rollback, must-pass rule for handle removal, order-abstract walk (P-ORD) of the scan handlers over all option combinations",
      "every RPC has a confirmed row, reaches the operations of its row with the request's own key/value in the right positions and no foreign mutating operation; the documented limits are installed by the constructor only and no data operation is reachable without the key/value/batch tests; a rejected request performs no mutating operation (TxGet violates this: recorded finding); every failing exit of BatchWrite returns the variable its deferred rollback tests; Tx* handlers use the transaction only on the found edge and Commit/Rollback remove the handle on every exit; for each of 8 option combinations Scan/TxScan build the iterator the embedded API would (prefix/suffix filters over a full iterator, range(start,end), full); tombstones are neither sent nor counted; an empty value is not a deletion.",
      "equality of responses with the embedded API for all request sequences and data sets; gRPC transport behaviour; connection-bound cleanup; GetStats contents.",
      "DESIGN.md §2 C19")

NOT_APPLICABLE_PENDING = "rules for this property are not built yet (work in progress, see DESIGN.md §2); nothing is claimed until the check exists"

ALSO = {
 "C01": " Also (shared rules): a successful transactional Put/Delete has buffered exactly that operation; immutable memtables leave the pool only into the flush path; the buffered log writer is never replaced without a flush and fragment writer/reader agree on chunk boundaries. After round 5: recovery's last table stays mutable; MemTable.Get's table; comparator without subtraction. After round 6: flush keeps only the newest version collected per key. After round 7: delta base is the predecessor. After round 8: the fetcher accepts every block size. After round 9: the pool-write and selection-order rules are listed here too. After round 10: the loader loads every table file; memtable writes always insert. After round 11: the table iterator loads the block it indexed.",
 "C02": " Also: no read after the first of a record can leave readRecord as a clean io.EOF; the batch pre-validation uses writeRecord's own size formula; fragment writer/reader agree on chunk boundaries. After round 5: the log file is written through the buffered writer only; == vs errors.Is in the replay error classes; recovery's last table stays mutable. After round 6: recovery's limits are the configured limits. After round 8: replay mirrors the live apply. After round 9: the log reader's open fails only on I/O errors; temporary table names are invisible to the loaders. After round 10: the loader loads every table file.",
 "C03": " Also: a successful transactional Put/Delete has buffered exactly that operation; a log file is reused for appending only behind a clean tail; the retry wrapper's decision table (success only after a successful call; error after exhausted retries). After round 5: the record writers never flush or write the file directly (a batch reaches the file in one piece). After round 6: the buffer keeps no stale derived view; Buffer.Get returns a copy; the log has no batch frame (open finding: a torn final write recovers a strict subset of a transaction). After round 7: sealing only with replacement; 'closed' only when closed. After round 8: merge Next steps children with Next only. After round 9: value copies keep nil nil; sources hand tombstones to the merge. After round 10: memtable writes always insert; the storage mutators' callers are listed here too. After round 11: copy helpers keep empty non-nil.",
 "C04": " Also: a successful transactional Put/Delete has buffered exactly that operation; batch entries are stamped with the number the log assigned; an empty value is never turned into a deletion marker. After round 5: the retry wrapper's decision table. After round 6: the buffer-view rule; Delete advances the memtable snapshot bound like Put. After round 7: transaction reads hold tx.mu; scan sources complete. After round 8: buffer Seek ignores the old position; bounds table cross-listed. After round 9: the buffer iterator positions without looking at deletion markers. After round 11: the Value() copy obligations are listed here too.",
 "C06": " Also: the retry wrapper's decision table; immutable memtables leave the pool only into the flush path; the sequence counter is handed over at rotation; every Append* reads the status with WAL.mu held. After round 6: write-ahead and entry-copies cross-listed. After round 7: GetNextSequence answers in every state. After round 8: pool writes always reach the table. After round 9: facade reads make their storage lookup during the call. After round 10: memtable writes always insert; the facade reports an error only if storage refused. After round 11: shared table files are read positionally.",
 "C07": " Also: the database-wide transaction lock is released on every exit of Commit/Rollback after the active swap; pairing: every lock acquired in a function of pkg/ is released or deferred before every reachable return. After round 5: no blocking channel send under a lock. After round 7: no shared map handed out. After round 8: guarded maps are used under their lock. After round 9: the shared parts of a table reader are written only under their own exclusive lock. After round 10: waits on a published signal channel are released by close. Also after round 10: no try-lock fallbacks. After round 11: shared table files are read positionally. Also after round 11: the raw transaction lock's users are listed here too.",
 "C15": " Also: no re-entrant acquisition of a receiver's lock in the replication package; the primary's gRPC server pings idle connections. After round 5: Primary.sessions is written under the exclusive lock only. After round 7: the session's stream is never cleared. After round 8: the node-info handler keeps no state. After round 9: session lookups are nil-checked before use; the heartbeat monitor always starts. After round 10: observer callbacks do not re-enter the log. After round 11: the heartbeat configuration is used as given.",
 "C16": " Also: reflective method lookups name only the engine's own BeginTransaction. After round 5: the manager only raises the read-only flag; the *Internal entry points do not take the transaction lock. After round 6: node info reports the engine's mode. After round 7: remote begin goes through the engine. After round 8: the mode is compared verbatim everywhere. After round 9: mutating handlers report success only behind the embedded call. After round 10: the replica dials the address the node information reports.",
 "C17": " Also: the lock pairing rule (every acquisition released or deferred before every reachable return). After round 7: connection tracking is dropped only when empty. After round 8: the sweeper sweeps on every tick. After round 9: the default idle limit is below the default lifetime limit. After round 10: the registry's no-reentrancy obligations are listed here too. After round 11: connection clean-up forwards the id verbatim; TTL parameters land in the like-named fields.",
 "C18": " Also: MemTable.Get's decision table over the immutable and the mutable arm. After round 5: pool writes hold the pool lock; comparator without subtraction. After round 6: read accessors return copies (tree defect in MemTable.Get repaired). After round 7: adapter Seek always seeks. After round 10: no try-lock fallbacks. After round 11: copy helpers keep empty non-nil.",
 "C19": " Also: the prefix/suffix predicates agree with bytes.HasPrefix/HasSuffix. After round 5: handles are removed only on exits that finished the transaction. After round 7: idle criterion cross-listed. After round 8: responses list distinct elements; handlers keep no state. After round 9: mutating handlers report success only behind the embedded call. After round 10: the filtering Next ends only at a match or the end; the raw transaction lock's users are listed here too. After round 11: the default registry limits are listed here too.",
 "C20": " Also: the temporary manifest file is truncated (or created exclusively) when opened. After round 6: manifest entries grow only with validated configurations. After round 7: Config.Update exclusive; defaults only for nil. After round 8: the current entry is the listed entry. After round 10: components do not modify the shared configuration. After round 11: the configuration's sentinel errors match by identity.",
 "C13": " Also: Compress/Decompress handle the same codecs with inverse library calls and return fresh memory; per entry type the applier performs the primary's operation with the entry's own key and value. After round 5: no narrowing of encoder values; decoder minimum ≤ encoder minimum; Apply always performs the operation. After round 7: applied prefix recorded (open finding: the prefix of a failed batch is re-applied). After round 9: a resumed applier expects the successor of its start. After round 10: no try-lock fallbacks; applier wrappers record a position only after the apply.",
 "C14": " Also (shared with C13): the replica's cursor discipline; the 'nothing to send' exits of the catch-up reader are decided by the log's own counter; the replica does not lower its gRPC receive limit below the default. After round 5: GetEntriesFrom flushes before reading; entry codec agreement. After round 6: the replica accepts whatever size the primary sends; the error state always returns to CONNECTING. After round 7: the state loop never gives up; the poll sends what it read. After round 8: connecting always dials; the time in the current state is counted from the latest entry into it. After round 10: the back-off depends only on the current error episode.",
 "C08": " Also: every Append* reads the closed/rotating status with WAL.mu held. After round 5: every recovered entry counts into the running maximum; every counter access holds WAL.mu. After round 6: explicit sequence numbers stay below the counter; a log exists before recovery hands the counter over; the reported position is never assigned unguarded in a goroutine; retention criterion cross-listed. After round 7: GetNextSequence answers in every state; acknowledged positions only move forward. After round 8: replay accepts every legal entry type. After round 9: rotations are serialised by one lock (repair 1685eec); the counter hand-over is taken whenever it is larger. After round 10: log segments are deleted only by the reviewed caller. After round 11: the reported sequence is the last used, not the next.",
 "C09": " Also: Append routes by exactly the payload size writeRecord builds; parseEntryData's slices are bounds-checked. After round 5: ReuseWAL reopens the newest file only; no constant bound on decoded lengths in the reader. After round 6: explicit sequence numbers stay below the counter. After round 7: fragments are concatenated. After round 8: file bounds test every entry both ways. After round 9: log files are ordered by name only; the monotone-stores obligations are listed here too. After round 10: the destructive-operation table is listed here too. After round 11: older log files are skipped only strictly below the start.",
 "C10": " Also: the errors ReplayWALFile returns from its damage-handling region are classified 'skip' by ReplayWALDir; no read after the first of a record can leave readRecord as a clean io.EOF. After round 5: an explicit io.EOF only behind err == io.EOF. After round 6: a log exists before recovery. After round 7: resynchronisation drops pending fragments. After round 8: pending fragments are dropped at a damaged record (tree defect repaired 4f4a928; the rule re-stated). After round 9: the log reader's open fails only on I/O errors; no unguarded integer division on the recovery path.",
 "C11": " Also: block.NewReader's callers hand over freshly allocated bytes; decoder limits are not below the format maximum; seek landing (structural part): a lower-bound restart search must examine the previous interval and the index seek must agree with the first-key index — both violated on this tree (recorded findings). After round 5: the temporary file is named after the table's own file. After round 6: the block checksum covers the whole block; table iterators own their block cursors. After round 7: the builder copies what it keeps; delta base. After round 8: fetcher and index cursor rules. locator and fetcher accept every block size; table Seek always asks the index. After round 9 and the repair 9ebed55: the floor search and the floor-then-step composition of Seek are decided; FindBlockForKey agrees with the index key. Also after round 9: the index key is the first key verbatim; every block's filter is loaded. After round 10: no cap on a block locator's size anywhere in the table reader. Also after round 10: every block filter is written. After round 11: the block lookup compares the key; the table iterator loads what it indexed and marks itself positioned.",
 "C12": " Also: the selection range is the union of the selected files (min and max updated independently); sort comparators index the slice being sorted. After round 5: the default executor receives a non-nil tombstone tracker. After round 6: selection takes the oldest files by creation time (tree defect repaired). CompactRange's selection is closed under key sharing (tree defect repaired). After round 7: every load describes the files afresh. After round 8: CompactRange repeats after every selection; one tombstone tracker. After round 9: overlap scans visit every file of a level; the strategy's readers are closed only when no cycle runs. After round 10: the source files of a task are a prefix of the oldest-first order.",
 "C05": " After round 6: the merging iterator positions every child; memtable SeekToLast lands on the newest version. After round 7: scan sources complete (with bounds); adapter Seek always seeks. After round 8: buffer Seek stateless; table iterator positions its index cursor; filtered SeekToLast scans to the end. After round 9: value copies keep nil nil; sources hand tombstones to the merge. After round 10: no cap on a block locator's size anywhere in the table reader. After round 11: the table iterator marks itself positioned on every exit.",
}

def main():
    props = [json.loads(l) for l in open(os.path.join(HERE, "properties.jsonl"))]
    checks, na = [], []
    for p in props:
        pid = p["id"]
        if pid in CLAIMS:
            c = CLAIMS[pid]
            checks.append({
                "property_id": pid,
                "quick_cmd": f"./check {pid} quick",
                "thorough_cmd": f"./check {pid} thorough",
                "evidence_file": f"/verif/evidence/{pid}.json",
                "replay_cmd_template": f"./check {pid} --replay {{path}}",
                "engine": "kvet",
                "level_claimed": {"category": "other", "text": LEVEL_TEXT + "Decided here: " + c["decided"] + ALSO.get(pid, ""), "design_ref": c["ref"]},
                "level_note": NOTE + c["not_decided"],
                "technique": c["technique"],
            })
        else:
            na.append({"property_id": pid, "reason": NA.get(pid, NOT_APPLICABLE_PENDING)})
    m = {
        "version": 1,
        "setup_cmd": "cd /verif/kvet && GOFLAGS=-mod=mod GOPROXY=off GOWORK=off go build -o kvet-bin .",
        "hooks": {
            "guard": "verif",
            "enable": "none needed: static analysis inspects the source as it is; no verif-tagged file exists in /repo",
            "baseline_off_cmd": "cd /repo && GOFLAGS=-mod=mod go test -json -vet=off -count=1 -timeout 25m ./...",
            "source_commits": [],
            "add_only": True,
        },
        "engines": [{"name": "kvet", "path": "/verif/kvet", "serves_properties": sorted(CLAIMS), "kind_free_text": "repo-specific static analyser (Go; go/packages + go/ssa + VTA call graph): path, lockset, order-table, value-flow, who-may-call, codec-agreement and exhaustiveness rules"}],
        "checks": checks,
        "notes": "Technique family: static analysis only. No check executes kevo code. The thorough tier adds the variant corpus self-test of the checker (seeded breaking changes must be flagged, behaviour-preserving refactorings must not change the verdict; applied to scratch copies of the current tree). Fixed defects and open known findings: /verif/known_findings.json; rules and limits: /verif/DESIGN.md.",
        "not_applicable": na,
    }
    json.dump(m, open(os.path.join(HERE, "MANIFEST.json"), "w"), indent=1)
    print("claimed:", sorted(CLAIMS), "not claimed:", [x["property_id"] for x in na])

NA = {}
if __name__ == "__main__":
    main()
