#!/usr/bin/env python3
"""usage: import_benign.py <set>   — copies /tmp/ben/out/<set>/NN/{patch.diff,notes.md} to /verif/variants/benign/<set>-NN/"""
import sys, os, shutil, json
s = sys.argv[1]
src = f"/tmp/ben/out/{s}"
for nn in sorted(os.listdir(src)):
    d = os.path.join(src, nn)
    if not os.path.isfile(os.path.join(d, "patch.diff")):
        continue
    dst = f"/verif/variants/benign/{s}-{nn}"
    os.makedirs(dst, exist_ok=True)
    shutil.copy(os.path.join(d, "patch.diff"), dst)
    notes = ""
    if os.path.isfile(os.path.join(d, "notes.md")):
        shutil.copy(os.path.join(d, "notes.md"), dst)
        notes = " ".join(open(os.path.join(d, "notes.md")).read().split())[:400]
    json.dump({"kind": "benign", "properties": ["all"], "description": notes,
               "origin": "sub-agent asked for behaviour-preserving refactorings of named functions (given only the function list and a scratch worktree; nothing from /verif)"},
              open(os.path.join(dst, "meta.json"), "w"), indent=1)
    print("imported", dst)
