#!/usr/bin/env python3
"""Regenerates /verif/docs/*.md (rules per property, seeded variants, fixes, open findings) from the checker's own output,
the variant corpus and known_findings.json, and refreshes the blocks between <!-- BEGIN x --> / <!-- END x --> in DESIGN.md."""
import json, os, subprocess, collections, re
V = '/verif'
BIN = os.path.join(V, 'kvet', 'kvet-bin')
env = dict(os.environ, GOFLAGS='-mod=mod', GOPROXY='off', GOWORK='off')
out = subprocess.run([BIN, '-repo', '/repo', '-verif', V, '-property', 'all', '-no-evidence', '-list'], capture_output=True, text=True, env=env).stdout
rules = collections.OrderedDict()
for l in out.splitlines():
    if l.startswith('  ['):
        st = l[3:l.index(']')]
        rid = l.split()[1]
        p = rid.split('/')[0]
        rules.setdefault(p, collections.OrderedDict()).setdefault(rid, collections.Counter())[st] += 1
lines = ['| property | rules as built (obligations on the current tree; v = open known finding, i = info) |', '|---|---|']
tot = 0
for p in sorted(rules):
    cells = []
    for rid, c in rules[p].items():
        n = sum(v for k, v in c.items() if k != 'info')
        tot += n
        extra = ''
        if c.get('violated'): extra += ', %dv' % c['violated']
        if c.get('info'): extra += ', %di' % c['info']
        cells.append('`%s` (%d%s)' % (rid.split('/', 1)[1], n, extra))
    lines.append('| %s | %s |' % (p, ', '.join(cells)))
lines.append('')
lines.append('Total: %d obligations in %d rule instances over %d properties.' % (tot, sum(len(v) for v in rules.values()), len(rules)))
T = {'rules_table': '\n'.join(lines) + '\n'}
lines = ['| variant | what the blind change does (short) | flagged by |', '|---|---|---|']
nb = 0
for d in sorted(os.listdir(V + '/seeded')):
    mp = V + '/seeded/' + d + '/meta.json'
    if not os.path.isfile(mp): continue
    nb += 1
    m = json.load(open(mp))
    det = m.get('detected_by') or []
    rs = sorted({x.split(' ')[0] for x in det})
    desc = m.get('breaks_and_needs', '').split(':')[0]
    if len(desc) > 150: desc = desc[:147] + '…'
    lines.append('| %s | %s | %s |' % (d, desc.replace('|', '/'), ', '.join('`%s`' % r for r in rs) or '**missed**'))
T['mutants_table'] = '\n'.join(lines) + '\n'
k = json.load(open(V + '/known_findings.json'))['findings']
lines = ['| property | rule / construct | commit | what failed |', '|---|---|---|---|']
for e in k:
    if e['status'] == 'fixed':
        lines.append('| %s | `%s` `%s` | %s | %s |' % (e['property'], e['rule'].split('/', 1)[1], e['construct'], e.get('commit', ''), e['what_fails'].replace('|', '/')))
T['fixed_table'] = '\n'.join(lines) + '\n'
lines = ['| property | rule / construct | what fails | why recorded, not repaired |', '|---|---|---|---|']
for e in k:
    if e['status'] != 'fixed':
        lines.append('| %s | `%s` `%s` | %s | %s |' % (e['property'], e['rule'].split('/', 1)[1], e['construct'], e['what_fails'].replace('|', '/'), e.get('why_not_fixed', '').replace('|', '/')))
T['open_table'] = '\n'.join(lines) + '\n'
lines = ['| variant | origin | what it changes |', '|---|---|---|']
bd = V + '/variants/benign'
nben = 0
for d in sorted(os.listdir(bd)):
    mp = os.path.join(bd, d, 'meta.json')
    if not os.path.isfile(mp): continue
    nben += 1
    m = json.load(open(mp))
    desc = m.get('description', '')
    if len(desc) > 170: desc = desc[:167] + '…'
    lines.append('| %s | %s | %s |' % (d, 'hand' if m.get('origin', '').startswith('hand') else 'agent', desc.replace('|', '/')))
T['benign_table'] = '\n'.join(lines) + '\n'
os.makedirs(V + '/docs', exist_ok=True)
for name, txt in T.items():
    open(V + '/docs/' + name + '.md', 'w').write(txt)
p = V + '/DESIGN.md'
s = open(p).read()
for name, txt in T.items():
    pat = re.compile(r'(<!-- BEGIN %s -->\n)(.*?)(<!-- END %s -->)' % (name, name), re.S)
    if pat.search(s):
        s = pat.sub(lambda m: m.group(1) + txt + m.group(3), s)
open(p, 'w').write(s)
print('breaking variants', nb, 'benign', nben, 'fixed', sum(1 for e in k if e['status'] == 'fixed'), 'open', sum(1 for e in k if e['status'] != 'fixed'), 'obligations', tot)
