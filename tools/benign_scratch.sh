#!/bin/bash
# usage: benign_scratch.sh new            -> creates /tmp/bscr (copy of /repo incl. .git, clean)
#        benign_scratch.sh save <name> "<props comma list|all>" "<description>"  -> builds, runs kvet on it, saves the diff as /verif/variants/benign/<name>/
set -u
export GOFLAGS=-mod=mod GOPROXY=off GOWORK=off
case "$1" in
new) rm -rf /tmp/bscr; rsync -a /repo/ /tmp/bscr/; git -C /tmp/bscr reset -q --hard HEAD; git -C /tmp/bscr worktree prune 2>/dev/null; echo /tmp/bscr;;
save)
  cd /tmp/bscr || exit 2
  go build ./... || { echo "does not build"; exit 2; }
  raw=$(/tmp/kvet -repo /tmp/bscr -verif /verif -property all -no-evidence 2>&1); rc=$?
  out=$(echo "$raw" | grep "^VIOLATED\|^UNDEC\|^UNRES\|^fatal error\|^panic:" | cut -c1-300)
  if [ $rc -ge 2 ] && [ -z "$out" ]; then out="kvet exit $rc (crash)"; fi
  d=/verif/variants/benign/$2; mkdir -p "$d"
  git diff > "$d/patch.diff"
  python3 - "$d" "$3" "$4" <<'PY'
import json,sys
d,props,desc=sys.argv[1:4]
json.dump({"kind":"benign","properties":props.split(","),"description":desc,"origin":"hand-written"},open(d+"/meta.json","w"),indent=1)
PY
  if [ -n "$out" ]; then echo "ALARMS:"; echo "$out"; else echo "silent; saved $d ($(wc -l < $d/patch.diff) lines)"; fi
  git -C /tmp/bscr reset -q --hard HEAD;;
esac
