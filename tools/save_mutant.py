#!/usr/bin/env python3
"""usage: save_mutant.py <ID> <X> "<what it breaks / needs>"  — copies a confirmed mutant into /verif/seeded/<ID>-<X>/"""
import sys, os, shutil, json, re
ID, X, needs = sys.argv[1], sys.argv[2], sys.argv[3]
src = f"/tmp/mut/out/{ID}/{X}"
res = open(f"/tmp/confirm/results/{ID}_{X}.txt").read()
flags = dict(re.findall(r"([A-Z_]+)=([^\s]+)", res))
ok = (flags.get("DEMO_WITHOUT_PATCH") == "pass" and flags.get("DEMO_WITH_PATCH", "").startswith("fail") and flags.get("BUILD") == "ok"
      and flags.get("SUITE_NONREPL") == "pass" and flags.get("SUITE_REPL") == "pass" and flags.get("PATCH_APPLIES") == "yes")
if not ok:
    print("NOT CONFIRMED", flags); sys.exit(1)
dst = f"/verif/seeded/{ID}-{X}"
os.makedirs(dst, exist_ok=True)
for f in os.listdir(src):
    shutil.copy(os.path.join(src, f), os.path.join(dst, f))
cmd = re.search(r"cmd=(.*)", res).group(1).strip()
d = re.search(r"dir=(\S+)", res).group(1)
meta = {
    "id": f"{ID}-{X}", "property": ID[:3],
    "origin": "fresh sub-agent given only the property text and a scratch worktree of /repo (HEAD with the fix: commits); nothing from /verif",
    "breaks_and_needs": needs,
    "demo": {"copy_into": d, "command": cmd},
    "confirmed_by_me": {
        "how": "tools/confirm_mutant.sh in a scratch worktree under /tmp/confirm (removed afterwards)",
        "demo_without_patch": "pass", "demo_with_patch": "fail", "go_build": "ok",
        "existing_tests_with_patch": "pass (all packages except pkg/replication, plus the stable pkg/replication tests of BASELINE.json)"},
    "detected_by": [],
}
json.dump(meta, open(os.path.join(dst, "meta.json"), "w"), indent=1)
print("saved", dst)
