#!/bin/bash
# thorough tier: the quick analysis (verdict on the current tree) plus the checker's own seeded-variant corpus.
set -u
cd "$(dirname "$0")"
VERIF="$(pwd)"
ID="$1"
REPO="${KVET_REPO:-/repo}"
"$VERIF/kvet/kvet-bin" -repo "$REPO" -verif "$VERIF" -property "$ID" -tier thorough -seed "${VERIF_SEED:-0}"
rc=$?
if [ -x "$VERIF/variants/run.sh" ]; then
  "$VERIF/variants/run.sh" "$ID" || rc=1
fi
exit $rc
