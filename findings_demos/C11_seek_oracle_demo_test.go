package sstable

// Oracle comparison for the repair of the SSTable seek findings (C11/seek-lands-in-the-right-interval,
// C11/index-seek-agrees-with-index-key). Copy into pkg/sstable and run:
//   go test -vet=off -count=1 ./pkg/sstable -run TestFindingSeekAgainstOracle -v
// For tables of many sizes (one entry, around the restart interval, several blocks, tombstones mixed in) every
// present key, every absent key between two present keys, a key below the first and a key above the last is
// sought; the iterator must land on the first key >= target (found with sort.Search on the written keys), must
// deliver the rest of the table in order from there, and Get must agree. It FAILS before the repair.

import (
	"bytes"
	"fmt"
	"path/filepath"
	"sort"
	"testing"
)

func TestFindingSeekAgainstOracle(t *testing.T) {
	for _, tc := range []struct{ n, valueSize int }{{1, 8}, {2, 8}, {15, 8}, {16, 8}, {17, 8}, {33, 8}, {100, 8}, {400, 600}, {3000, 100}} {
		dir := t.TempDir()
		path := filepath.Join(dir, "t.sst")
		w, err := NewWriter(path)
		if err != nil {
			t.Fatal(err)
		}
		var keys [][]byte
		tomb := map[string]bool{}
		for i := 0; i < tc.n; i++ {
			k := []byte(fmt.Sprintf("key%06d", 2*i+2)) // even numbers: odd ones are absent
			keys = append(keys, k)
			if i%7 == 3 {
				tomb[string(k)] = true
				if err := w.AddTombstone(k); err != nil {
					t.Fatal(err)
				}
				continue
			}
			if err := w.Add(k, bytes.Repeat([]byte{byte('a' + i%26)}, tc.valueSize)); err != nil {
				t.Fatal(err)
			}
		}
		if err := w.Finish(); err != nil {
			t.Fatal(err)
		}
		r, err := OpenReader(path)
		if err != nil {
			t.Fatal(err)
		}
		bad := 0
		for j := 1; j <= 2*tc.n+3; j++ {
			target := []byte(fmt.Sprintf("key%06d", j))
			want := sort.Search(len(keys), func(i int) bool { return bytes.Compare(keys[i], target) >= 0 })
			it := r.NewIterator()
			ok := it.Seek(target)
			if want == len(keys) {
				if ok || it.Valid() {
					bad++
					t.Errorf("n=%d Seek(%s): want end of table, got ok=%v key=%q", tc.n, target, ok, it.Key())
				}
				continue
			}
			if !ok || !it.Valid() || !bytes.Equal(it.Key(), keys[want]) {
				bad++
				if bad < 10 {
					t.Errorf("n=%d Seek(%s): want %s, got ok=%v key=%q", tc.n, target, keys[want], ok, it.Key())
				}
				continue
			}
			if it.IsTombstone() != tomb[string(keys[want])] {
				t.Errorf("n=%d Seek(%s): tombstone flag %v on %s", tc.n, target, it.IsTombstone(), keys[want])
			}
			// the rest of the table follows in order (checked in full for small tables, for the next 40 otherwise)
			for i := want + 1; i < len(keys) && i < want+40; i++ {
				if !it.Next() || !bytes.Equal(it.Key(), keys[i]) {
					bad++
					t.Errorf("n=%d after Seek(%s): entry %d is %q, want %s", tc.n, target, i, it.Key(), keys[i])
					break
				}
			}
			if j%2 == 0 && !tomb[string(target)] {
				if v, err := r.Get(target); err != nil || len(v) != tc.valueSize {
					bad++
					t.Errorf("n=%d Get(%s): %d bytes, err=%v", tc.n, target, len(v), err)
				}
			}
		}
		r.Close()
		if bad > 0 {
			t.Fatalf("n=%d: %d probes wrong", tc.n, bad)
		}
	}
}
