package replication

import (
	"errors"
	"fmt"
	"testing"

	"github.com/KevoDB/kevo/pkg/wal"
	replication_proto "github.com/KevoDB/kevo/proto/kevo/replication"
)

// A batch that fails in the middle (an apply error, a decode error, a gap inside the batch) has already applied the
// entries before the failing one, but ApplyEntries leaves its position where it was before the batch: the retry
// applies those entries a second time. With 1:a=1, 2:a=2, 3:(fails once) the replica's state goes a=1, a=2, a=1, a=2 —
// entries re-applied, and in between a state (a=1 after a=2 was visible) that the exactly-once rule excludes.
func TestFindingPrefixOfFailedBatchIsAppliedAgain(t *testing.T) {
	mk := func(seq uint64, key, val string) *replication_proto.WALEntry {
		payload, err := SerializeWALEntry(&wal.Entry{SequenceNumber: seq, Type: wal.OpTypePut, Key: []byte(key), Value: []byte(val)})
		if err != nil {
			t.Fatal(err)
		}
		return &replication_proto.WALEntry{SequenceNumber: seq, Payload: payload}
	}
	batch := []*replication_proto.WALEntry{mk(1, "a", "1"), mk(2, "a", "2"), mk(3, "b", "1")}

	applier := NewWALBatchApplier(0)
	var applied []string
	failOnce := true
	apply := func(e *wal.Entry) error {
		if e.SequenceNumber == 3 && failOnce {
			failOnce = false
			return errors.New("transient apply failure")
		}
		applied = append(applied, fmt.Sprintf("%d:%s=%s", e.SequenceNumber, e.Key, e.Value))
		return nil
	}
	if _, _, err := applier.ApplyEntries(batch, apply); err == nil {
		t.Fatal("expected the first attempt to fail at entry 3")
	}
	// the primary re-sends from the position the replica reports
	from := applier.GetMaxApplied() + 1
	var retry []*replication_proto.WALEntry
	for _, e := range batch {
		if e.SequenceNumber >= from {
			retry = append(retry, e)
		}
	}
	if _, _, err := applier.ApplyEntries(retry, apply); err != nil {
		t.Fatalf("retry failed: %v", err)
	}
	t.Logf("applied in this order: %v", applied)
	seen := map[string]int{}
	for _, a := range applied {
		seen[a]++
		if seen[a] > 1 {
			t.Errorf("entry %s applied %d times", a, seen[a])
		}
	}
}
