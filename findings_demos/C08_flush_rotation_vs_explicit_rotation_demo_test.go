package storage

import (
	"fmt"
	"path/filepath"
	"sync"
	"sync/atomic"
	"testing"
	"time"

	"github.com/KevoDB/kevo/pkg/config"
	"github.com/KevoDB/kevo/pkg/stats"
	"github.com/KevoDB/kevo/pkg/wal"
)

// Demonstration of the defect repaired in 1685eec (C08/rotations-are-serialised): a flush-driven rotation (FlushMemTables,
// under flushMu) overlapping an explicit one (RotateWAL, under m.mu) seeded two new logs from the same old one. FAILED
// before the repair, passes since. Copy into pkg/engine/storage; go test -vet=off -count=3 -run TestFindingFlushRotation.
// (Derived from the demo of the blind variant C08r9-B:) explicit log rotations requested by several callers at
// the same time (StorageManager.RotateWAL) while one client keeps writing.
// Every acknowledged write must carry a sequence number strictly greater than
// the one acknowledged before it, and the last_sequence statistic must never
// go backwards, no matter how the rotations interleave with the writes.
//
// A single writer is used, so after each acknowledged Put the last_sequence
// statistic is exactly the sequence number that Put was stamped with. As a
// second, independent witness the log files are replayed at the end: one
// sequence number must never be attached to two different single-key writes.
func TestFindingFlushRotationVsExplicitRotation(t *testing.T) {
	dir := t.TempDir()
	cfg := &config.Config{
		Version:         config.CurrentManifestVersion,
		SSTDir:          filepath.Join(dir, "sst"),
		WALDir:          filepath.Join(dir, "wal"),
		WALSyncMode:     config.SyncNone,
		MemTableSize:    64 * 1024 * 1024, // large: no flush during the test
		MemTablePoolCap: 2,
		MaxMemTables:    2,
	}

	m, err := NewManager(cfg, stats.NewAtomicCollector())
	if err != nil {
		t.Fatalf("NewManager: %v", err)
	}

	const (
		rounds   = 300
		rotators = 2
	)

	var (
		stop       atomic.Bool
		writerDone sync.WaitGroup
		violations []string
		acked      int
	)

	// The single writer
	writerDone.Add(1)
	go func() {
		defer writerDone.Done()
		var prev uint64
		for i := 0; !stop.Load(); i++ {
			key := []byte(fmt.Sprintf("key-%08d", i))
			if err := m.Put(key, []byte("v")); err != nil {
				// A write that is refused during a rotation is not acknowledged
				// and puts no obligation on the sequence numbers
				continue
			}
			acked++
			cur, _ := m.GetStorageStats()["last_sequence"].(uint64)
			if cur <= prev && len(violations) < 5 {
				violations = append(violations,
					fmt.Sprintf("write %q acknowledged with sequence %d after sequence %d had been acknowledged", key, cur, prev))
			}
			prev = cur
			if i%4 == 3 {
				time.Sleep(20 * time.Microsecond)
			}
		}
	}()

	// Rounds of simultaneous explicit rotations
	for r := 0; r < rounds; r++ {
		var wg sync.WaitGroup
		start := make(chan struct{})
		for i := 0; i < rotators; i++ {
			i := i
			wg.Add(1)
			go func() {
				defer wg.Done()
				<-start
				if i == 0 {
					if err := m.FlushMemTables(); err != nil {
						t.Errorf("FlushMemTables: %v", err)
					}
					return
				}
				if err := m.RotateWAL(); err != nil {
					t.Errorf("RotateWAL: %v", err)
				}
			}()
		}
		close(start)
		wg.Wait()
	}

	stop.Store(true)
	writerDone.Wait()

	if err := m.Close(); err != nil {
		t.Logf("close: %v", err)
	}

	t.Logf("acknowledged writes: %d", acked)
	for _, v := range violations {
		t.Errorf("sequence order violated: %s", v)
	}

	// Second witness: what is in the log files
	seen := make(map[uint64]string)
	dups := 0
	_, err = wal.ReplayWALDir(cfg.WALDir, func(e *wal.Entry) error {
		if other, ok := seen[e.SequenceNumber]; ok && other != string(e.Key) {
			dups++
			if dups <= 5 {
				t.Errorf("sequence number %d is attached to two different writes in the log: %q and %q",
					e.SequenceNumber, other, e.Key)
			}
		}
		seen[e.SequenceNumber] = string(e.Key)
		return nil
	})
	if err != nil {
		t.Fatalf("replay: %v", err)
	}
	if dups > 5 {
		t.Errorf("... %d duplicated sequence numbers in total", dups)
	}
}

