package wal

import (
	"bytes"
	"encoding/binary"
	"os"
	"path/filepath"
	"testing"

	"github.com/KevoDB/kevo/pkg/config"
)

type recPos struct {
	off, size int
	typ       uint8
}

func scanRecords(t *testing.T, data []byte) []recPos {
	var out []recPos
	for off := 0; off+HeaderSize <= len(data); {
		n := int(binary.LittleEndian.Uint16(data[off+4 : off+6]))
		out = append(out, recPos{off, HeaderSize + n, data[off+6]})
		off += HeaderSize + n
	}
	return out
}

// After a damaged record the reader keeps the fragments it had collected (Reader.fragments) and resynchronises by
// skipping 32 KiB. If the skip happens to end on a record boundary in front of a MIDDLE/LAST fragment of ANOTHER entry,
// those fragments are glued onto the stale ones: recovery delivers the first entry's key and sequence number with a value
// that was never written. The history below is laid out so that the skip lands exactly there.
func TestFindingStaleFragmentsAreGluedToAnotherEntry(t *testing.T) {
	v1 := bytes.Repeat([]byte{0xA1}, 70000)
	v2 := bytes.Repeat([]byte{0xB2}, 37232)
	build := func(pad int) (string, []byte) {
		dir := t.TempDir()
		cfg := config.NewDefaultConfig(dir)
		cfg.WALSyncMode = config.SyncNone
		w, err := NewWAL(cfg, dir)
		if err != nil {
			t.Fatal(err)
		}
		if _, err := w.Append(OpTypePut, []byte("k1"), v1); err != nil {
			t.Fatal(err)
		}
		if _, err := w.Append(OpTypePut, []byte("p"), bytes.Repeat([]byte{0xCC}, pad)); err != nil {
			t.Fatal(err)
		}
		if _, err := w.Append(OpTypePut, []byte("k2"), v2); err != nil {
			t.Fatal(err)
		}
		if err := w.Close(); err != nil {
			t.Fatal(err)
		}
		files, _ := filepath.Glob(filepath.Join(dir, "*.wal"))
		data, _ := os.ReadFile(files[0])
		return files[0], data
	}
	// solve for the padding: the first MIDDLE of k2 must start exactly 32768 bytes behind the end of k1's second MIDDLE
	pad := 28000
	var path string
	var data []byte
	var recs []recPos
	var target, dest int
	for i := 0; i < 4; i++ {
		path, data = build(pad)
		recs = scanRecords(t, data)
		var mids []int
		for j, r := range recs {
			if r.typ == RecordTypeMiddle {
				mids = append(mids, j)
			}
		}
		if len(mids) < 3 {
			t.Fatalf("unexpected layout: %d middle fragments", len(mids))
		}
		target = mids[1] // k1's second middle fragment: the one we damage
		dest = mids[2]   // k2's first middle fragment
		gap := recs[dest].off - (recs[target].off + recs[target].size)
		if gap == 32*1024 {
			break
		}
		pad += 32*1024 - gap
	}
	if gap := recs[dest].off - (recs[target].off + recs[target].size); gap != 32*1024 {
		t.Skipf("could not lay the log out (gap %d)", gap)
	}
	// one flipped byte in the payload of k1's second middle fragment
	data[recs[target].off+HeaderSize+100] ^= 0xFF
	if err := os.WriteFile(path, data, 0644); err != nil {
		t.Fatal(err)
	}
	var got []*Entry
	if _, err := ReplayWALFile(path, func(e *Entry) error { got = append(got, e); return nil }); err != nil {
		t.Logf("replay error: %v", err)
	}
	for _, e := range got {
		switch string(e.Key) {
		case "k1":
			if !bytes.Equal(e.Value, v1) {
				n2 := bytes.Count(e.Value, []byte{0xB2})
				t.Errorf("recovery delivered key k1 (seq %d) with a value that was never written: %d bytes, %d of them from k2's value", e.SequenceNumber, len(e.Value), n2)
			}
		case "k2":
			if !bytes.Equal(e.Value, v2) {
				t.Errorf("k2 recovered with an altered value")
			}
		}
	}
	t.Logf("recovered %d entries", len(got))
}
