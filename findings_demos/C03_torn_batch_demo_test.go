package engine

import (
	"os"
	"path/filepath"
	"sort"
	"testing"
)

// Demonstrates the C03 finding on the unmodified tree: a committed transaction whose last log record is torn
// (process stop during the final log write) is recovered as a strict subset of its writes.
func TestFindingTornBatchRecoversStrictSubset(t *testing.T) {
	dir := t.TempDir()
	e, err := NewEngineFacade(dir)
	if err != nil {
		t.Fatal(err)
	}
	tx, err := e.BeginTransaction(false)
	if err != nil {
		t.Fatal(err)
	}
	for _, k := range []string{"a", "b", "c"} {
		if err := tx.Put([]byte(k), []byte("value-"+k)); err != nil {
			t.Fatal(err)
		}
	}
	if err := tx.Commit(); err != nil {
		t.Fatal(err)
	}
	e.Close()

	// tear the final log write: cut a few bytes off the newest log file
	files, _ := filepath.Glob(filepath.Join(dir, "wal", "*.wal"))
	sort.Strings(files)
	var target string
	for _, f := range files {
		if st, err := os.Stat(f); err == nil && st.Size() > 0 {
			target = f
		}
	}
	if target == "" {
		t.Fatal("no log file with content")
	}
	st, _ := os.Stat(target)
	if err := os.Truncate(target, st.Size()-5); err != nil {
		t.Fatal(err)
	}

	e, err = NewEngineFacade(dir)
	if err != nil {
		t.Fatal(err)
	}
	defer e.Close()
	present := 0
	for _, k := range []string{"a", "b", "c"} {
		if v, err := e.Get([]byte(k)); err == nil && string(v) == "value-"+k {
			present++
		}
	}
	t.Logf("keys of the transaction present after recovery: %d of 3", present)
	if present != 0 && present != 3 {
		t.Fatalf("strict subset of a transaction recovered: %d of 3 keys", present)
	}
}
