package engine

import (
	"bytes"
	"fmt"
	"os"
	"path/filepath"
	"sort"
	"testing"
)

// Demo for change B (C02): "the same guarantees hold again for writes made
// after a recovery".
//
// Schedule:
//  1. session 1 (SyncImmediate): put a0..a4 (acknowledged), then the process
//     dies in the middle of appending a5: the last WAL record is cut short
//     inside its payload (simulated by truncating the newest WAL file).
//  2. session 2: reopen (recovery must yield a0..a4), put b0..b2
//     (acknowledged, synchronous logging), close cleanly.
//  3. session 3: reopen. a0..a4 and b0..b2 must all be present.
func TestDemoC02B_WritesAfterTornTailRecoverySurvive(t *testing.T) {
	dir, err := os.MkdirTemp("", "c02b-demo-*")
	if err != nil {
		t.Fatal(err)
	}
	defer os.RemoveAll(dir)

	val := func(tag string, i int) []byte {
		return bytes.Repeat([]byte(fmt.Sprintf("%s%d-", tag, i)), 20)
	}

	// ---- session 1 -------------------------------------------------------
	eng, err := NewEngine(dir) // default config: WALSyncMode = SyncImmediate
	if err != nil {
		t.Fatalf("open 1: %v", err)
	}
	for i := 0; i < 5; i++ {
		if err := eng.Put([]byte(fmt.Sprintf("a%d", i)), val("a", i)); err != nil {
			t.Fatalf("put a%d: %v", i, err)
		}
	}
	// the in-flight write the crash interrupts (never acknowledged)
	if err := eng.Put([]byte("a5"), val("a", 5)); err != nil {
		t.Fatalf("put a5: %v", err)
	}
	if err := eng.Close(); err != nil {
		t.Fatalf("close 1: %v", err)
	}

	// crash image: cut the last record (a5) short, 10 bytes into its tail
	walFiles, _ := filepath.Glob(filepath.Join(dir, "wal", "*.wal"))
	if len(walFiles) == 0 {
		t.Fatal("no WAL file found")
	}
	sort.Strings(walFiles)
	last := walFiles[len(walFiles)-1]
	st, err := os.Stat(last)
	if err != nil {
		t.Fatal(err)
	}
	if err := os.Truncate(last, st.Size()-79); err != nil {
		t.Fatal(err)
	}

	// ---- session 2: recover, write more, close cleanly --------------------
	eng, err = NewEngine(dir)
	if err != nil {
		t.Fatalf("open 2: %v", err)
	}
	for i := 0; i < 5; i++ {
		got, err := eng.Get([]byte(fmt.Sprintf("a%d", i)))
		if err != nil || !bytes.Equal(got, val("a", i)) {
			t.Fatalf("after first recovery a%d = %q, %v", i, got, err)
		}
	}
	for i := 0; i < 3; i++ {
		if err := eng.Put([]byte(fmt.Sprintf("b%d", i)), val("b", i)); err != nil {
			t.Fatalf("put b%d: %v", i, err)
		}
	}
	if err := eng.Close(); err != nil {
		t.Fatalf("close 2: %v", err)
	}

	// ---- session 3: everything acknowledged so far must be there ----------
	eng, err = NewEngine(dir)
	if err != nil {
		t.Fatalf("open 3: %v", err)
	}
	defer eng.Close()
	for i := 0; i < 5; i++ {
		got, err := eng.Get([]byte(fmt.Sprintf("a%d", i)))
		if err != nil || !bytes.Equal(got, val("a", i)) {
			t.Errorf("after second recovery a%d = %q, %v", i, got, err)
		}
	}
	for i := 0; i < 3; i++ {
		got, err := eng.Get([]byte(fmt.Sprintf("b%d", i)))
		if err != nil {
			t.Errorf("b%d, acknowledged after the first recovery and cleanly closed, is gone after reopen: %v", i, err)
		} else if !bytes.Equal(got, val("b", i)) {
			t.Errorf("b%d has wrong value after reopen: %q", i, got)
		}
	}
}
