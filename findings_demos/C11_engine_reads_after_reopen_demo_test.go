package engine

import (
	"errors"
	"fmt"
	"testing"
	"time"

	"github.com/KevoDB/kevo/pkg/config"
)

// Engine-level manifestation of the two SSTable seek findings (C11; repaired in 9ebed55: the test failed before — 1830 of
// 2000 keys unreadable — and passes since) combined with the open C10 finding: once the
// log volume exceeds MaxMemTables x MemTableSize, a reopen moves the logs aside and reads are served by SSTables alone;
// before the repair sstable.Iterator.Seek then missed most keys of every table with more than one restart interval.
func TestFindingEngineReadsAfterLogsMovedAside(t *testing.T) {
	dir := t.TempDir()
	if _, err := config.LoadConfigFromManifest(dir); errors.Is(err, config.ErrManifestNotFound) {
		cfg := config.NewDefaultConfig(dir)
		cfg.MemTableSize = 16 * 1024
		cfg.MaxMemTables = 2
		if err := cfg.SaveManifest(dir); err != nil {
			t.Fatal(err)
		}
	}
	e, err := NewEngine(dir)
	if err != nil {
		t.Fatal(err)
	}
	n := 2000
	for i := 0; i < n; i++ {
		if err := e.Put([]byte(fmt.Sprintf("key-%06d", i)), []byte(fmt.Sprintf("value-%040d", i))); err != nil {
			t.Fatal(err)
		}
	}
	if err := e.FlushImMemTables(); err != nil {
		t.Fatal(err)
	}
	time.Sleep(300 * time.Millisecond)
	if err := e.Close(); err != nil {
		t.Fatal(err)
	}
	e, err = NewEngine(dir)
	if err != nil {
		t.Fatal(err)
	}
	defer e.Close()
	miss := 0
	for i := 0; i < n; i++ {
		v, err := e.Get([]byte(fmt.Sprintf("key-%06d", i)))
		if err != nil || string(v) != fmt.Sprintf("value-%040d", i) {
			miss++
		}
	}
	t.Logf("%d of %d acknowledged, flushed keys unreadable after a clean close and reopen", miss, n)
	if miss > 0 {
		t.Fail()
	}
}
