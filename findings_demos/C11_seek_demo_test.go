package sstable

// Demonstration of the recorded findings C11/seek-lands-in-the-right-interval and C11/index-seek-agrees-with-index-key
// (copy into pkg/sstable and run: go test -vet=off -count=1 ./pkg/sstable -run TestFindingSeek -v).
// It FAILED on the tree before the repair 9ebed55 (Seek(k) did not land on k for most keys) and passes since.

import (
	"bytes"
	"fmt"
	"path/filepath"
	"testing"
)

func seekMisses(t *testing.T, n int, valueSize int) (int, int) {
	dir := t.TempDir()
	path := filepath.Join(dir, "t.sst")
	w, err := NewWriter(path)
	if err != nil {
		t.Fatal(err)
	}
	val := bytes.Repeat([]byte("v"), valueSize)
	for i := 0; i < n; i++ {
		if err := w.Add([]byte(fmt.Sprintf("key%06d", i)), val); err != nil {
			t.Fatal(err)
		}
	}
	if err := w.Finish(); err != nil {
		t.Fatal(err)
	}
	r, err := OpenReader(path)
	if err != nil {
		t.Fatal(err)
	}
	defer r.Close()
	missSeek, missGet := 0, 0
	for i := 0; i < n; i++ {
		k := []byte(fmt.Sprintf("key%06d", i))
		it := r.NewIterator()
		if !it.Seek(k) || !bytes.Equal(it.Key(), k) {
			missSeek++
		}
		if _, err := r.Get(k); err != nil {
			missGet++
		}
	}
	return missSeek, missGet
}

func TestFindingSeekSingleBlock(t *testing.T) {
	ms, mg := seekMisses(t, 100, 8) // one data block, 100 entries, a restart point every 16
	if ms != 0 || mg != 0 {
		t.Fatalf("single block, 100 keys: Seek(k) did not land on k for %d keys, Get(k) failed for %d keys", ms, mg)
	}
}

func TestFindingSeekSeveralBlocks(t *testing.T) {
	ms, mg := seekMisses(t, 400, 600) // several data blocks
	if ms != 0 || mg != 0 {
		t.Fatalf("several blocks, 400 keys: Seek(k) did not land on k for %d keys, Get(k) failed for %d keys", ms, mg)
	}
}
