package compaction

import (
	"testing"
	"time"
)

// CompactRange moves every file that overlaps the requested range — whole files, including their keys outside the range —
// to the deepest level, and leaves alone the files that do not overlap the range. An older file that shares an
// out-of-range key with a moved newer file stays at a shallower level and shadows the newer version from then on.
func TestFindingCompactRangeBuriesNewerVersions(t *testing.T) {
	sstDir, cfg, cleanup := setupCompactionTest(t)
	defer cleanup()

	t0 := time.Now().UnixNano()
	createTestSSTable(t, sstDir, 0, 1, t0+1, map[string]string{"y": "y-old", "z": "z-old"}) // older, outside [a,b]
	createTestSSTable(t, sstDir, 0, 2, t0+2, map[string]string{"a": "a-new", "z": "z-new"}) // newer, overlaps [a,b]

	tracker := NewTombstoneTracker(24 * time.Hour)
	executor := NewCompactionExecutor(cfg, sstDir, tracker)
	strategy := NewTieredCompactionStrategy(cfg, sstDir, executor)
	if err := strategy.LoadSSTables(); err != nil {
		t.Fatal(err)
	}
	if err := strategy.CompactRange([]byte("a"), []byte("b")); err != nil {
		t.Fatal(err)
	}
	// read "z" the way the engine does: shallower levels first, within level 0 newest first
	var got string
	found := false
	for level := 0; level <= 8 && !found; level++ {
		files := strategy.levels[level]
		for i := len(files) - 1; i >= 0 && !found; i-- {
			if v, err := files[i].Reader.Get([]byte("z")); err == nil {
				got, found = string(v), true
				t.Logf("z found in level %d file %s: %q", level, files[i].Path[len(sstDir)+1:], got)
			}
		}
	}
	if !found || got != "z-new" {
		t.Fatalf("after CompactRange(a,b) the key z reads %q, want %q: the newer version was moved below the older file that was left alone", got, "z-new")
	}
}
