package sstable

import (
	"fmt"
	"path/filepath"
	"testing"
)

// Forward iteration over a table file must yield every entry once. On the pinned tree block.Iterator.decodeCurrent does
// not move the cursor behind the entry it decodes, so the entry a block iterator is positioned on by SeekToFirst (or by a
// Seek that lands on a restart point) is delivered a second time by the following Next.
func TestFindingForwardIterationYieldsEveryEntryOnce(t *testing.T) {
	for _, n := range []int{1, 5, 40, 3000} {
		path := filepath.Join(t.TempDir(), fmt.Sprintf("t%d.sst", n))
		w, err := NewWriter(path)
		if err != nil {
			t.Fatal(err)
		}
		for i := 0; i < n; i++ {
			if err := w.Add([]byte(fmt.Sprintf("key-%06d", i)), []byte(fmt.Sprintf("value-%040d", i))); err != nil {
				t.Fatal(err)
			}
		}
		if err := w.Finish(); err != nil {
			t.Fatal(err)
		}
		r, err := OpenReader(path)
		if err != nil {
			t.Fatal(err)
		}
		it := r.NewIterator()
		got := 0
		dups := 0
		prev := ""
		for it.SeekToFirst(); it.Valid(); it.Next() {
			k := string(it.Key())
			if k == prev {
				dups++
			}
			prev = k
			got++
		}
		r.Close()
		if got != n || dups != 0 {
			t.Errorf("%d entries written, forward iteration yields %d (%d delivered twice in a row)", n, got, dups)
		}
	}
}
