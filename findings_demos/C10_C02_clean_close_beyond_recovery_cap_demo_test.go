package engine

import (
	"errors"
	"fmt"
	"strings"
	"testing"

	"github.com/KevoDB/kevo/pkg/config"
)

func TestFindingCleanCloseBeyondRecoveryCapLosesUnflushedWrites(t *testing.T) {
	dir := t.TempDir()
	if _, err := config.LoadConfigFromManifest(dir); errors.Is(err, config.ErrManifestNotFound) {
		cfg := config.NewDefaultConfig(dir)
		cfg.MemTableSize = 2048
		cfg.MaxMemTables = 1
		if err := cfg.SaveManifest(dir); err != nil {
			t.Fatal(err)
		}
	}
	e, err := NewEngine(dir)
	if err != nil {
		t.Fatal(err)
	}
	n := 45
	for i := 0; i < n; i++ {
		if err := e.Put([]byte(fmt.Sprintf("key-%04d", i)), []byte(strings.Repeat("v", 150))); err != nil {
			t.Fatal(err)
		}
	}
	if err := e.Close(); err != nil {
		t.Fatal(err)
	}
	e, err = NewEngine(dir)
	if err != nil {
		t.Fatal(err)
	}
	defer e.Close()
	var missing []int
	for i := 0; i < n; i++ {
		if _, err := e.Get([]byte(fmt.Sprintf("key-%04d", i))); err != nil {
			missing = append(missing, i)
		}
	}
	t.Logf("missing after clean close+reopen: %v", missing)
	if len(missing) > 0 {
		t.Fail()
	}
}
