package engine

import "testing"

// A caller that writes into the slice returned by Get must not change what the database holds.
func TestFindingGetHandsOutStoredBytes(t *testing.T) {
	e, err := NewEngineFacade(t.TempDir())
	if err != nil {
		t.Fatal(err)
	}
	defer e.Close()
	if err := e.Put([]byte("k"), []byte("abc")); err != nil {
		t.Fatal(err)
	}
	v, err := e.Get([]byte("k"))
	if err != nil {
		t.Fatal(err)
	}
	v[0] = 'X' // the caller reuses / scribbles on its result
	v2, err := e.Get([]byte("k"))
	if err != nil || string(v2) != "abc" {
		t.Fatalf("Get after the caller modified an earlier result: %q, want %q (the result aliases the memtable entry)", v2, "abc")
	}
}

// The same through a transaction's own writes: the value was captured at Put time.
func TestFindingTxGetHandsOutBufferedBytes(t *testing.T) {
	e, err := NewEngineFacade(t.TempDir())
	if err != nil {
		t.Fatal(err)
	}
	defer e.Close()
	tx, err := e.BeginTransaction(false)
	if err != nil {
		t.Fatal(err)
	}
	if err := tx.Put([]byte("k"), []byte("abc")); err != nil {
		t.Fatal(err)
	}
	v, err := tx.Get([]byte("k"))
	if err != nil {
		t.Fatal(err)
	}
	v[0] = 'X'
	if err := tx.Commit(); err != nil {
		t.Fatal(err)
	}
	v2, err := e.Get([]byte("k"))
	if err != nil || string(v2) != "abc" {
		t.Fatalf("committed value %q, want %q (tx.Get handed out the buffered value itself)", v2, "abc")
	}
}
