package compaction

import (
	"bytes"
	"testing"
	"time"
)

// Demonstrates a C12 defect of the pinned tree: the storage manager numbers its level-0 files from 1 again after every
// open (Manager.nextFileNum is not restored), and the compaction strategy takes "the oldest files" by that number. After
// a restart a NEWER level-0 file is compacted into level 1 while an OLDER level-0 file that holds an earlier version of
// the same key stays in level 0, where it wins every read: an overwritten key reverts to its old value.
func TestFindingSelectionIgnoresAgeAfterRestart(t *testing.T) {
	sstDir, cfg, cleanup := setupCompactionTest(t) // MaxMemTables = 2
	defer cleanup()

	t0 := time.Now().UnixNano()
	// first session: three flushes, numbered 1, 2, 3
	createTestSSTable(t, sstDir, 0, 1, t0+1, map[string]string{"a": "a1"})
	createTestSSTable(t, sstDir, 0, 2, t0+2, map[string]string{"b": "b1"})
	createTestSSTable(t, sstDir, 0, 3, t0+3, map[string]string{"k": "old"})
	// second session (numbering restarts at 1): the key is overwritten and flushed
	createTestSSTable(t, sstDir, 0, 1, t0+4, map[string]string{"k": "new"})

	tracker := NewTombstoneTracker(24 * time.Hour)
	executor := NewCompactionExecutor(cfg, sstDir, tracker)
	strategy := NewTieredCompactionStrategy(cfg, sstDir, executor)
	if err := strategy.LoadSSTables(); err != nil {
		t.Fatal(err)
	}
	task, err := strategy.SelectCompaction()
	if err != nil || task == nil {
		t.Fatalf("no task: %v", err)
	}
	selected := map[string]bool{}
	for _, f := range task.InputFiles[0] {
		selected[f.Path] = true
	}
	// every level-0 file older than a selected one and sharing keys with it must be selected too
	for _, f := range task.InputFiles[0] {
		for _, g := range strategy.levels[0] {
			if g.Timestamp < f.Timestamp && !selected[g.Path] &&
				bytes.Compare(g.FirstKey, f.LastKey) <= 0 && bytes.Compare(f.FirstKey, g.LastKey) <= 0 {
				t.Errorf("level-0 file %s (timestamp +%d) goes to level 1 while the older, overlapping %s (timestamp +%d) stays in level 0: its versions will shadow the newer ones",
					f.Path[len(sstDir)+1:], f.Timestamp-t0, g.Path[len(sstDir)+1:], g.Timestamp-t0)
			}
		}
	}
}
